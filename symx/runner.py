"""Driver: runs the units of one property over all cores, replays candidates concretely, writes evidence."""
from __future__ import annotations

import hashlib
import importlib
import inspect
import json
import multiprocessing as mp
import os
import signal
import sys
import time
import traceback
from fractions import Fraction

from .engine import SymEngine, ConcreteEngine, set_active, Infeasible, Inconclusive, EngineLimit, SymNum

VERIF = os.path.dirname(os.path.dirname(os.path.abspath(__file__)))
REPO = os.environ.get("COMA_REPO", "/repo")


class Unit:
    """one harness: a body run symbolically over a list of bounded configurations"""

    def __init__(self, name, body, configs, functions, bounds, nontrivial_rule, assumptions=(), stubs=(),
                 classify=None, shard_depth=None, witness=True, outside=(), describe=None, timeout_ms=None,
                 budget_s=None):
        self.name = name
        self.body = body
        self.configs = configs
        self.functions = list(functions)
        self.bounds = bounds
        self.nontrivial_rule = nontrivial_rule
        self.assumptions = list(assumptions)
        self.stubs = list(stubs)
        self.classify = classify
        self.shard_depth = shard_depth
        self.witness = witness
        self.outside = list(outside)
        self.describe = describe
        self.timeout_ms = timeout_ms
        self.budget_s = budget_s


def jsonable(o):
    if isinstance(o, Fraction):
        return int(o) if o.denominator == 1 else f"{o.numerator}/{o.denominator}"
    if isinstance(o, dict):
        return {str(k): jsonable(v) for k, v in o.items()}
    if isinstance(o, (list, tuple, set, frozenset)):
        return [jsonable(v) for v in o]
    if isinstance(o, (int, float, str, bool)) or o is None:
        return o
    if isinstance(o, SymNum):
        return repr(o)
    try:
        import numpy as np
        if isinstance(o, np.integer):
            return int(o)
        if isinstance(o, np.floating):
            return float(o)
    except ImportError:
        pass
    return repr(o)


def norm(o):
    """normal form for comparing symbolic (model-evaluated) and concrete outcomes"""
    if isinstance(o, bool) or o is None or isinstance(o, str):
        return o
    if isinstance(o, int):
        return Fraction(o)
    if isinstance(o, float):
        if o != o or o in (float("inf"), float("-inf")):
            return repr(o)
        return Fraction(o)
    if isinstance(o, Fraction):
        return o
    if isinstance(o, dict):
        return {str(k): norm(v) for k, v in o.items()}
    if isinstance(o, (list, tuple)):
        return [norm(v) for v in o]
    try:
        import numpy as np
        if isinstance(o, np.integer):
            return Fraction(int(o))
        if isinstance(o, np.floating):
            return norm(float(o))
        if isinstance(o, np.bool_):
            return bool(o)
    except ImportError:
        pass
    return repr(o)


def same(a, b):
    """outcome equality; a concrete float (Fraction mixed with a float literal of the code) is compared with tolerance"""
    if isinstance(a, Fraction) and isinstance(b, Fraction):
        if a == b:
            return True
        return abs(a - b) <= Fraction(1, 10 ** 9) * max(1, abs(a), abs(b))
    if isinstance(a, list) and isinstance(b, list):
        return len(a) == len(b) and all(same(x, y) for x, y in zip(a, b))
    if isinstance(a, dict) and isinstance(b, dict):
        return a.keys() == b.keys() and all(same(a[k], b[k]) for k in a)
    return a == b


def load_snapshot(d):
    return {"vars": {k: (Fraction(v) if isinstance(v, str) else v) for k, v in d["vars"].items()},
            "choices": list(d["choices"])}


def run_concrete(unit, cfg, snapshot, as_float=False):
    """the same harness body on plain numbers; returns (failures, outcome, tags) or None if the
    snapshot does not describe a path of this body"""
    Ec = ConcreteEngine(snapshot, as_float=as_float)
    set_active(None)
    try:
        out = unit.body(Ec, cfg)
    except Infeasible:
        return None
    return Ec.failures, out, Ec.tags


def _load_units(modname):
    if REPO not in sys.path:
        sys.path.insert(0, REPO)
    if os.path.join(REPO, "sv") not in sys.path:
        sys.path.insert(1, os.path.join(REPO, "sv"))
    if VERIF not in sys.path:
        sys.path.insert(0, VERIF)
    return importlib.import_module(modname)


def _worker(task):
    (modname, prop, uidx, cidx, cfg, forced, max_depth, deadline, timeout_ms, witness_every, seed, max_paths) = task
    if deadline is not None and time.time() > deadline:      # budget already spent: do not start this subtree
        return {"unit": None, "uidx": uidx, "cidx": cidx, "skipped": True}
    mod = _load_units(modname)
    unit = mod.units(prop)[uidx]
    E = SymEngine(timeout_ms=unit.timeout_ms or timeout_ms)
    E.crosscheck_every = XC_EVERY.get("thorough" if timeout_ms > 10000 else "quick", 0)
    E._xc_counter = (seed * 7919 + cidx * 31 + len(forced)) % max(E.crosscheck_every, 1)
    set_active(E)
    st = {"unit": unit.name, "cidx": cidx, "paths": 0, "inconclusive": 0, "inconclusive_reasons": {}, "nontrivial": 0,
          "discharged": 0, "q_unknown": 0, "violations": [], "nonrepro": 0, "witness_ok": 0, "witness_bad": [],
          "tags": {}, "samples": [], "distinct": set(), "nonrepro_clauses": {}, "nonrepro_samples": []}
    counter = [0]

    def _alarm(signum, frame):
        raise Inconclusive(f"one path ran longer than {PATH_TIMEOUT_S} s (loop that does not terminate on symbolic input?)")

    signal.signal(signal.SIGALRM, _alarm)

    def fn(E):
        signal.setitimer(signal.ITIMER_REAL, PATH_TIMEOUT_S)
        try:
            return unit.body(E, cfg)
        finally:
            signal.setitimer(signal.ITIMER_REAL, 0)

    def on_path(outcome, E):
        counter[0] += 1
        if outcome[0] == "inconclusive":
            st["inconclusive"] += 1
            r = outcome[1][:160]
            st["inconclusive_reasons"][r] = st["inconclusive_reasons"].get(r, 0) + 1
            return
        out = outcome[1]
        st["paths"] += 1
        st["discharged"] += E.discharged
        st["q_unknown"] += len(E.q_unknown)
        if E.q_unknown:
            st["inconclusive"] += 1
            r = "unknown validity query: " + ",".join(sorted(set(E.q_unknown)))
            st["inconclusive_reasons"][r] = st["inconclusive_reasons"].get(r, 0) + 1
        for t in E.tags:
            st["tags"][t] = st["tags"].get(t, 0) + 1
        if "nontrivial" in E.tags:
            st["nontrivial"] += 1
            st["distinct"].add(hashlib.md5(repr(E.decision_vector()).encode()).hexdigest()[:12])
        set_active(None)
        try:
            if E.cands:
                seen = set()
                confirmed_clauses = set()
                for name, snap in E.cands:
                    key = json.dumps(jsonable(snap), sort_keys=True)
                    if key in seen or name in confirmed_clauses:
                        continue
                    seen.add(key)
                    try:
                        res = run_concrete(unit, cfg, snap)
                    except Exception:
                        res = ([f"replay crashed: {traceback.format_exc()[-300:]}"], None, set())
                    if res is None or not res[0]:
                        st["nonrepro"] += 1
                        k = ("unreachable pre-state / input leaves the path: " if res is None else "clause holds concretely: ") + name
                        st["nonrepro_clauses"][k] = st["nonrepro_clauses"].get(k, 0) + 1
                        if len(st["nonrepro_samples"]) < 2:
                            st["nonrepro_samples"].append({"cfg": cfg, "clause": name, "snapshot": jsonable(snap),
                                                           "symbolic_outcome": jsonable(norm(E.concretize(out))) if False else None})
                        continue
                    failures, cout, _ = res
                    try:    # the same input in native int/float arithmetic (recorded, not required)
                        nat = run_concrete(unit, cfg, snap, as_float=True)
                        native = bool(nat and nat[0])
                    except Exception:
                        native = None
                    if any(f.startswith("exception:") for f in failures) and not (
                            native and nat and any(f.startswith("exception:") for f in nat[0])):
                        # an exception that only arises with proxy / exact-rational numbers is an engine limit, not a verdict
                        st["nonrepro"] += 1
                        st["inconclusive"] += 1
                        r = "exception not reproduced with native int/float inputs: " + ",".join(failures)[:100]
                        st["inconclusive_reasons"][r] = st["inconclusive_reasons"].get(r, 0) + 1
                        continue
                    cls = None
                    if unit.classify:
                        try:
                            cls = unit.classify(cfg, snap, failures, cout)
                        except Exception:
                            cls = None
                    confirmed_clauses.add(name)
                    st["violations"].append({"unit": unit.name, "cfg": cfg, "clause": name, "failures": failures,
                                             "snapshot": jsonable(snap), "outcome": jsonable(cout), "class": cls,
                                             "reproduces_in_native_float_arithmetic": native})
            elif unit.witness and witness_every and (counter[0] <= 3 or (counter[0] + seed) % witness_every == 0):
                try:
                    set_active(E)
                    snap = E.snapshot()
                    sym_out = norm(E.concretize(out))
                    set_active(None)
                    res = run_concrete(unit, cfg, snap)
                    if res is None:
                        st["witness_bad"].append({"cfg": cfg, "snapshot": jsonable(snap), "why": "concrete run left the path"})
                    else:
                        failures, cout, _ = res
                        if failures or not same(norm(cout), sym_out):
                            st["witness_bad"].append({"cfg": cfg, "snapshot": jsonable(snap), "failures": failures,
                                                      "symbolic": jsonable(sym_out), "concrete": jsonable(norm(cout))})
                        else:
                            st["witness_ok"] += 1
                            if len(st["samples"]) < 2:
                                st["samples"].append({"unit": unit.name, "cfg": cfg, "witness_input": jsonable(snap),
                                                      "outcome": jsonable(cout), "decisions": len(E.trace)})
                except Inconclusive:
                    pass
        finally:
            set_active(E)

    t0 = time.time()
    try:
        r = E.explore(fn, forced=forced, max_depth=max_depth, deadline=deadline, on_path=on_path, max_paths=max_paths,
                      slice_s=SLICE_S if max_depth is None else None)
    except Exception:
        return {"unit": unit.name, "cidx": cidx, "crash": traceback.format_exc()[-1500:], "cfg": cfg}
    st["exhausted"] = r["exhausted"]
    st["truncated"] = r["truncated"]
    st["queries"] = E.nchecks
    st["solver_s"] = E.solver_time
    st["unknowns"] = E.unknowns
    st["realisations"] = E.realisations
    st["xc"] = {k: v for k, v in E.xc.items() if k != "disagreements"}
    st["xc_disagreements"] = E.xc.get("disagreements", [])[:1]
    st["nonlinear"] = E.nonlinear
    st["wall"] = time.time() - t0
    st["distinct"] = list(st["distinct"])
    return st


def source_hashes(functions):
    out = {}
    for f in functions:
        modname, _, qual = f.partition(":")
        try:
            obj = importlib.import_module(modname)
            for part in qual.split("."):
                if part:
                    try:
                        obj = getattr(obj, part)
                    except AttributeError:
                        # name-mangled private member
                        cls = obj
                        obj = getattr(cls, f"_{cls.__name__.lstrip('_')}{part}")
            src = inspect.getsource(obj)
            out[f] = hashlib.sha256(src.encode()).hexdigest()[:16]
        except Exception as ex:  # the function was renamed/removed by an edit: report, do not crash
            out[f] = f"unavailable: {type(ex).__name__}"
    return out


def load_known():
    p = os.path.join(VERIF, "known_findings.json")
    if not os.path.exists(p):
        return {"findings": [], "fixed": []}
    return json.load(open(p))


def run_property(modname, prop, tier, seed, nproc=None, budget_s=None):
    t0 = time.time()
    mod = _load_units(modname)
    units = mod.units(prop)
    nproc = nproc or min(16, os.cpu_count() or 1)
    timeout_ms = 10000 if tier == "quick" else 60000
    witness_every = 7 if tier == "quick" else 2
    total_budget = budget_s or (240 if tier == "quick" else 1500)
    deadline = t0 + total_budget
    tasks = []
    # VERIF_ONLY="unit[:ci,ci];unit2" restricts a development run to some units/configurations (evidence goes wherever VERIF_OUT says)
    only = {}
    for part in filter(None, os.environ.get("VERIF_ONLY", "").split(";")):
        nm, _, idx = part.partition(":")
        only[nm] = {int(x) for x in idx.split(",") if x}
    for ui, u in enumerate(units):
        cfgs = u.configs(tier)
        for ci, cfg in enumerate(cfgs):
            if only and (u.name not in only or (only[u.name] and ci not in only[u.name])):
                continue        # development filter, never set by a registered command
            d = u.shard_depth(cfg, tier) if u.shard_depth else None
            tasks.append((modname, prop, ui, ci, cfg, [], d, deadline, timeout_ms, witness_every, seed, None))
    agg = {}
    results = []
    ctx = mp.get_context("fork")
    crashes = []
    skipped = [0]
    with ctx.Pool(nproc) as pool:
        # dynamic queue: every finished task may hand back forced prefixes (sharding / work splitting).  At most 4 x nproc tasks
        # are in the pool at a time; the rest wait in a local backlog that is simply dropped (counted as skipped => non-exhaustive)
        # once the budget has ended.
        from collections import deque
        backlog = deque(tasks)
        running = []
        inflight = 4 * nproc
        while running or backlog:
            if time.time() > deadline and backlog:
                skipped[0] += len(backlog)
                backlog.clear()
            while backlog and len(running) < inflight:
                t = backlog.popleft()
                running.append((t, pool.apply_async(_worker, (t,))))
            still = []
            progressed = False
            for t, ar in running:
                if not ar.ready():
                    still.append((t, ar))
                    continue
                progressed = True
                st = ar.get()
                if "crash" in st:
                    crashes.append(st)
                    continue
                if st.get("skipped"):
                    skipped[0] += 1
                    continue
                results.append(st)
                for pf in st.get("truncated", []):
                    backlog.append(t[:5] + (pf, None) + t[7:])
            running = still
            if not progressed:
                time.sleep(0.01)
            if time.time() > deadline + 180 and running:      # watchdog: a worker is stuck well past the budget
                crashes.append({"crash": f"{len(running)} task(s) still running 180 s after the budget ended; pool terminated", "cfg": None})
                pool.terminate()
                break
    # ---- aggregate
    tot = {"paths": 0, "inconclusive": 0, "nontrivial": 0, "discharged": 0, "q_unknown": 0, "queries": 0,
           "solver_s": 0.0, "unknowns": 0, "witness_ok": 0, "nonrepro": 0, "realisations": 0}
    per_unit = {}
    violations, witness_bad, samples, reasons, tags = [], [], [], {}, {}
    nonrepro_clauses = {}
    nonrepro_samples = []
    distinct = set()
    exhausted = skipped[0] == 0
    nonlinear = False
    xc = {}
    xc_dis = []
    for st in results:
        for k, v in st.get("xc", {}).items():
            xc[k] = xc.get(k, 0) + v
        xc_dis.extend(st.get("xc_disagreements", []))
    for st in results:
        pu = per_unit.setdefault(st["unit"], {"paths": 0, "queries": 0, "nontrivial": 0, "solver_s": 0.0, "configs": set(),
                                              "exhausted": True, "inconclusive": 0})
        for k in tot:
            tot[k] += st[k]
        pu["paths"] += st["paths"]
        pu["queries"] += st["queries"]
        pu["nontrivial"] += st["nontrivial"]
        pu["solver_s"] += st["solver_s"]
        pu["inconclusive"] += st["inconclusive"]
        pu["configs"].add(st["cidx"])
        if not st["exhausted"]:
            exhausted = False
            pu["exhausted"] = False
        nonlinear = nonlinear or st["nonlinear"]
        violations.extend(st["violations"])
        witness_bad.extend(st["witness_bad"])
        for s in st["samples"]:
            if len(samples) < 6 and sum(1 for x in samples if x["unit"] == s["unit"]) < 2:
                samples.append(s)
        for r, n in st["inconclusive_reasons"].items():
            reasons[r] = reasons.get(r, 0) + n
        for t, n in st["tags"].items():
            tags[t] = tags.get(t, 0) + n
        for t, n in st.get("nonrepro_clauses", {}).items():
            nonrepro_clauses[t] = nonrepro_clauses.get(t, 0) + n
        for smp in st.get("nonrepro_samples", []):
            if len(nonrepro_samples) < 6:
                nonrepro_samples.append(smp)
        distinct.update((st["unit"], st["cidx"], d) for d in st["distinct"])
    for pu in per_unit.values():
        pu["configs"] = len(pu["configs"])
        pu["solver_s"] = round(pu["solver_s"], 2)
    return {"units": units, "tot": tot, "per_unit": per_unit, "violations": violations, "witness_bad": witness_bad,
            "samples": samples, "reasons": reasons, "tags": tags, "distinct": len(distinct), "exhausted": exhausted,
            "nonrepro_clauses": nonrepro_clauses, "nonrepro_samples": nonrepro_samples, "crashes": crashes, "wall": time.time() - t0, "nonlinear": nonlinear, "ntasks": len(results), "xc": xc, "xc_dis": xc_dis}


LEVELS = {"C09": "other", "C10": "other"}
XC_EVERY = {"quick": 400, "thorough": 100}     # every n-th validity query is re-decided by cvc5
PATH_TIMEOUT_S = 60
SLICE_S = 3.0      # a task that runs longer hands the rest of its subtree back to the pool


def _uidx(units, name):
    for i, u in enumerate(units):
        if u.name == name:
            return i
    raise KeyError(name)


def finish(prop, tier, seed, R, level_note=""):
    """evidence, VIOLATION / KNOWN-FINDING lines, exit code"""
    units = R["units"]
    known = load_known()
    listed = [f for f in known.get("findings", []) if f["property"] == prop]
    listed_keys = {f["key"] for f in listed}
    new, matched = [], {}
    for v in R["violations"]:
        if v["class"] is not None and v["class"] in listed_keys:
            matched.setdefault(v["class"], []).append(v)
        else:
            new.append(v)
    OUT = os.environ.get("VERIF_OUT", VERIF)     # scratch output directory when evaluating seeded changes
    os.makedirs(os.path.join(OUT, "replay", prop), exist_ok=True)
    os.makedirs(os.path.join(OUT, "evidence"), exist_ok=True)
    for old in os.listdir(os.path.join(OUT, "replay", prop)):
        if old.startswith(tier + "_"):
            os.unlink(os.path.join(OUT, "replay", prop, old))
    lines = []
    # group new violations by (unit, class, clause-set) and write a replay file for the first of each group
    groups = {}
    for v in new:
        groups.setdefault((v["unit"], v["class"], tuple(sorted(set(v["failures"])))), []).append(v)
    for i, (gk, vs) in enumerate(sorted(groups.items(), key=lambda kv: repr(kv[0]))):
        path = os.path.join(OUT, "replay", prop, f"{tier}_{i}.json")
        v = vs[0]
        json.dump({"property": prop, "unit": v["unit"], "cfg": v["cfg"], "snapshot": v["snapshot"], "failures": v["failures"],
                   "class": v["class"], "outcome": v["outcome"], "similar_paths": len(vs),
                   "reproduces_in_native_float_arithmetic": v.get("reproduces_in_native_float_arithmetic"),
                   "similar_paths_reproducing_natively": sum(1 for x in vs if x.get("reproduces_in_native_float_arithmetic"))}, open(path, "w"), indent=1)
        lines.append(f"VIOLATION property={prop} replay={path}")
    for f in listed:
        n = len(matched.get(f["key"], []))
        status = f"reproduced on {n} path(s) of this run" if n else "not reached within this tier's bounds"
        lines.append(f"KNOWN-FINDING: property={prop} {f['key']}: {f['what']} [{status}]")
    tot = R["tot"]
    harness_error = []
    if R["crashes"]:
        harness_error.append(f"{len(R['crashes'])} worker crash(es): " + R["crashes"][0]["crash"][-400:])
    if R["witness_bad"]:
        harness_error.append(f"{len(R['witness_bad'])} witness replay disagreement(s) between symbolic and concrete run: "
                             + json.dumps(R["witness_bad"][0])[:600])
    if R.get("xc", {}).get("disagree"):
        harness_error.append(f"z3 and cvc5 disagree on {R['xc']['disagree']} sampled validity queries: " + (R["xc_dis"][0][:400] if R["xc_dis"] else ""))
    if tot["paths"] == 0:
        harness_error.append("no path reached the oracle (vacuous)")
    elif tot["nontrivial"] == 0:
        harness_error.append("no non-trivial path (vacuity guard)")
    exhaustive = R["exhausted"] and tot["inconclusive"] == 0 and tot["unknowns"] == 0 and not R["crashes"]
    functions = sorted({f for u in units for f in u.functions})
    samples = R["samples"] or [{"note": "no witness sampled"}]
    for v in (new[:2] + [x for vs in matched.values() for x in vs[:1]]):
        samples.append({"violating_input": v["snapshot"], "unit": v["unit"], "cfg": v["cfg"], "failures": v["failures"],
                        "class": v["class"]})
    ev = {
        "property_id": prop, "tier": tier, "seed": seed, "level": LEVELS.get(prop, "model_checking"),
        "coverage": {
            "states": tot["paths"], "transitions": tot["queries"],
            "traces_validated_against_impl": tot["witness_ok"] + len(R["violations"]),
            "samples": samples,
            "evaluations": tot["paths"], "distinct_nontrivial": R["distinct"],
            "rule": " | ".join(f"{u.name}: {u.nontrivial_rule}" for u in units),
            "exhaustive": exhaustive,
            "explanation": ("bounded symbolic execution of the real functions (z3 proxies, every feasible path within the "
                            "bounds explored, one validity query per property clause per path)" if exhaustive else
                            "bug-hunting only for part of the bound: budget ended or inconclusive paths, see counters"),
            "functions_encoded": source_hashes(functions),
            "bounds": {u.name: u.bounds for u in units},
            "outside_claim": sorted({o for u in units for o in u.outside}),
            "stubs": sorted({s for u in units for s in u.stubs}),
            "per_unit": R["per_unit"],
            "queries_discharged_unsat": tot["discharged"], "solver_queries_total": tot["queries"],
            "solver_s": round(tot["solver_s"], 2), "solver": "z3 " + _z3v(),
            "arithmetic": "non-linear real/int" if R["nonlinear"] else "linear real/int (exact, not IEEE)",
            "inconclusive_paths": tot["inconclusive"], "inconclusive_reasons": R["reasons"],
            "solver_unknown_answers": tot["unknowns"], "realisation_forks": tot["realisations"],
            "candidate_models_not_reproduced": tot["nonrepro"], "candidate_models_not_reproduced_by_clause": R.get("nonrepro_clauses", {}),
            "candidate_models_not_reproduced_samples": R.get("nonrepro_samples", []),
            "cvc5_cross_check_of_sampled_queries": R.get("xc", {}),
            "witness_replays_agreeing": tot["witness_ok"], "witness_replays_disagreeing": len(R["witness_bad"]),
            "path_tags": R["tags"], "tasks": R["ntasks"],
            "known_findings_matched": {k: len(v) for k, v in matched.items()},
            "harness_errors": harness_error,
        },
        "assumptions": sorted({a for u in units for a in u.assumptions}),
        "wall_s": round(R["wall"], 2),
        "violations": len(new),
    }
    json.dump(ev, open(os.path.join(OUT, "evidence", f"{prop}.json"), "w"), indent=1, default=jsonable)
    for l in lines:
        print(l)
    print(f"[{prop} {tier}] paths={tot['paths']} nontrivial={tot['nontrivial']} queries={tot['queries']} "
          f"solver_s={tot['solver_s']:.1f} inconclusive={tot['inconclusive']} witness_ok={tot['witness_ok']} "
          f"violating_paths={len(R['violations'])} (new={len(new)}) exhaustive={exhaustive} wall={R['wall']:.1f}s")
    for h in harness_error:
        print("HARNESS-ERROR:", h)
    if new:             # violations are concrete re-executions of the real code: they stand whatever else went wrong
        return 1
    return 3 if harness_error else 0


def _z3v():
    import z3
    return z3.get_version_string()


def replay(modname, prop, path):
    mod = _load_units(modname)
    d = json.load(open(path))
    unit = next(u for u in mod.units(prop) if u.name == d["unit"])
    res = run_concrete(unit, d["cfg"], load_snapshot(d["snapshot"]))
    if res is None:
        print("replay: the recorded input no longer follows a path of the harness (not reproduced)")
        return 0
    failures, out, _ = res
    print("replay input:", json.dumps(d["snapshot"]))
    print("replay outcome:", json.dumps(jsonable(out)))
    if failures:
        print("replay failures:", failures)
        print(f"VIOLATION property={prop} replay={path}")
        return 1
    print("replay: property holds on this input now")
    return 0
