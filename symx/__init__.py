from .engine import (SymEngine, ConcreteEngine, SymNum, SymBool, Formula, And, Or, Not, Implies, Iff, ite, smin, smax,
                     Infeasible, Inconclusive, EngineLimit, Truncate, set_active, active)
