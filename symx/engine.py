"""symx -- a small symbolic executor for the *unmodified* Python functions of /repo.

Inputs are proxy numbers (SymNum: a linear form over z3 atoms); every comparison yields a SymBool
whose truth value is requested by the interpreter through __bool__; that is the single place where
a path forks.  Exploration is depth first and re-execution based: a path is identified by its
decision vector, the solver's assertion stack is kept aligned with that vector, and one solver
query is spent per *new* decision (is the other side feasible?).  See /verif/DESIGN.md section 2.

The same harness body is run in two modes:
  * SymEngine      -- symbolic exploration, validity queries decide the property on each path;
  * ConcreteEngine -- plain Python numbers taken from a solver model (counterexample replay and
                      per-path witness replay of the real code without proxies).
"""
from __future__ import annotations

import math
import sys
import time
from fractions import Fraction

import z3

if hasattr(sys, "set_int_max_str_digits"):
    sys.set_int_max_str_digits(0)


import os as _os
TWIN = bool(_os.environ.get("SYMX_TWIN"))     # reachability-twin mode (vacuity self-test)


class Infeasible(BaseException):
    """The current path condition is unsatisfiable (assumption failed)."""


class Truncate(BaseException):
    """Raised when a sharding run reaches its decision-depth limit."""


class Inconclusive(BaseException):
    """Solver answered unknown where a definite answer is needed, or an engine limit was hit."""


class EngineLimit(Exception):
    """Operation the proxies do not support (classified inconclusive, never a verdict)."""


_E = None  # the active engine (one per process)


def active():
    return _E


def set_active(e):
    global _E
    _E = e


# --------------------------------------------------------------------------------------------
# linear forms
# --------------------------------------------------------------------------------------------

def _is_inf(x):
    return isinstance(x, float) and (x == math.inf or x == -math.inf)


def _lift(x):
    """Python/NumPy scalar -> constant SymNum; None for +-inf; NotImplemented otherwise."""
    if isinstance(x, SymNum):
        return x
    if isinstance(x, bool):
        return SymNum(int(x), {}, True)
    if isinstance(x, int):
        return SymNum(x, {}, True)
    if isinstance(x, float):
        if x != x or x in (math.inf, -math.inf):
            return None
        return SymNum(int(x) if x.is_integer() else Fraction(x), {}, False)
    if isinstance(x, Fraction):
        if x.denominator == 1:
            return SymNum(int(x), {}, False)
        return SymNum(x, {}, False)
    try:
        import numpy as np
        if isinstance(x, np.integer):
            return SymNum(int(x), {}, True)
        if isinstance(x, np.floating):
            return _lift(float(x))
        if isinstance(x, np.bool_):
            return SymNum(int(x), {}, True)
    except ImportError:  # pragma: no cover
        pass
    return NotImplemented


class Cond:
    """lin (op) 0 with op in < <= == !="""
    __slots__ = ("lin", "op")

    def __init__(self, lin, op):
        self.lin = lin
        self.op = op

    def const_truth(self):
        s = self.lin.c
        op = self.op
        return s < 0 if op == "<" else s <= 0 if op == "<=" else s == 0 if op == "==" else s != 0

    def key(self):
        return (self.op, self.lin.isint, self.lin.c, frozenset(self.lin.t.items()))


class SymBool:
    __slots__ = ("c", "neg")

    def __init__(self, c, neg=False):
        self.c = c
        self.neg = neg

    def __bool__(self):
        r = _E.branch(self.c)
        return (not r) if self.neg else r

    def __invert__(self):
        return SymBool(self.c, not self.neg)

    def __eq__(self, other):
        if isinstance(other, (bool, SymBool)):
            return bool(self) == bool(other)
        return NotImplemented

    def __hash__(self):
        raise EngineLimit("hash of symbolic bool")

    def __repr__(self):
        return f"SymBool({'not ' if self.neg else ''}{self.c.lin!r} {self.c.op} 0)"


class SymNum:
    __slots__ = ("c", "t", "isint")

    def __init__(self, c, t, isint):
        self.c = c
        self.t = t
        self.isint = isint

    # ---- arithmetic
    def _addsub(self, o, sign, rev=False):
        o2 = _lift(o)
        if o2 is NotImplemented:
            return NotImplemented
        if o2 is None:  # +-inf
            if o != o:
                raise EngineLimit("nan arithmetic")
            if sign == 1:
                return o
            return o if rev else -o
        a, b = (o2, self) if rev else (self, o2)
        if not b.t:
            return SymNum(a.c + sign * b.c, a.t, a.isint and b.isint)
        t = dict(a.t)
        for k, v in b.t.items():
            nv = t.get(k, 0) + sign * v
            if nv == 0:
                t.pop(k, None)
            else:
                t[k] = nv
        return SymNum(a.c + sign * b.c, t, a.isint and b.isint)

    def __add__(self, o): return self._addsub(o, 1)
    def __radd__(self, o): return self._addsub(o, 1, True)
    def __sub__(self, o): return self._addsub(o, -1)
    def __rsub__(self, o): return self._addsub(o, -1, True)

    def __neg__(self):
        return SymNum(-self.c, {k: -v for k, v in self.t.items()}, self.isint)

    def __pos__(self):
        return self

    def _scale(self, k, kint):
        if k == 0:
            return SymNum(0, {}, self.isint and kint)
        return SymNum(self.c * k, {a: v * k for a, v in self.t.items()}, self.isint and kint)

    def __mul__(self, o):
        o2 = _lift(o)
        if o2 is NotImplemented:
            return NotImplemented
        if o2 is None:
            raise EngineLimit("inf * symbolic")
        if not o2.t:
            return self._scale(o2.c, o2.isint)
        if not self.t:
            return o2._scale(self.c, self.isint)
        E = _E
        isint = self.isint and o2.isint
        a, b = E.z3num(self), E.z3num(o2)
        if not isint:
            a = z3.ToReal(a) if self.isint else a
            b = z3.ToReal(b) if o2.isint else b
        E.nonlinear = True
        return SymNum(0, {E.new_atom(a * b, isint): 1}, isint)

    __rmul__ = __mul__

    def _div(self, o, rev):
        o2 = _lift(o)
        if o2 is NotImplemented:
            return NotImplemented
        if o2 is None:
            if rev:
                raise EngineLimit("inf / symbolic")
            return SymNum(0, {}, False)
        a, b = (o2, self) if rev else (self, o2)
        if not b.t:
            if b.c == 0:
                raise ZeroDivisionError("division by zero")
            return a._scale(Fraction(1) / Fraction(b.c), False)
        E = _E
        if E.branch(Cond(b, "==")):
            raise ZeroDivisionError("division by zero")
        za, zb = E.z3num(a), E.z3num(b)
        za = z3.ToReal(za) if a.isint else za
        zb = z3.ToReal(zb) if b.isint else zb
        E.nonlinear = True
        return SymNum(0, {E.new_atom(za / zb, False): 1}, False)

    def __truediv__(self, o): return self._div(o, False)
    def __rtruediv__(self, o): return self._div(o, True)

    def __floordiv__(self, o):
        o2 = _lift(o)
        if o2 is NotImplemented or o2 is None or o2.t or not self.isint or not o2.isint or o2.c <= 0:
            raise EngineLimit("floordiv only Int // positive int constant")
        E = _E
        return SymNum(0, {E.new_atom(E.z3num(self) / z3.IntVal(int(o2.c)), True): 1}, True)

    def __mod__(self, o):
        o2 = _lift(o)
        if o2 is NotImplemented or o2 is None or o2.t or not self.isint or not o2.isint or o2.c <= 0:
            raise EngineLimit("mod only Int % positive int constant")
        E = _E
        return SymNum(0, {E.new_atom(E.z3num(self) % z3.IntVal(int(o2.c)), True): 1}, True)

    def __pow__(self, n):
        if not isinstance(n, int) or n < 0 or n > 4:
            raise EngineLimit("pow only small constant exponents")
        r = SymNum(1, {}, True)
        for _ in range(n):
            r = r * self
        return r

    def __abs__(self):
        if not self.t:
            return SymNum(abs(self.c), {}, self.isint)
        E = _E
        z = E.z3num(self)
        return SymNum(0, {E.new_atom(z3.If(z >= 0, z, -z), self.isint): 1}, self.isint)

    # ---- comparisons
    def _cmp(self, o, op):
        if _is_inf(o):
            pos = o > 0
            return {"<": pos, "<=": pos, ">": not pos, ">=": not pos, "==": False, "!=": True}[op]
        if o is None:
            if op == "==":
                return False
            if op == "!=":
                return True
            return NotImplemented
        o2 = _lift(o)
        if o2 is NotImplemented or o2 is None:
            return NotImplemented
        if op in ("<", "<=", "==", "!="):
            return SymBool(Cond(self._addsub(o2, -1), op))
        return SymBool(Cond(o2._addsub(self, -1), "<" if op == ">" else "<="))

    def __lt__(self, o): return self._cmp(o, "<")
    def __le__(self, o): return self._cmp(o, "<=")
    def __gt__(self, o): return self._cmp(o, ">")
    def __ge__(self, o): return self._cmp(o, ">=")
    def __eq__(self, o): return self._cmp(o, "==")
    def __ne__(self, o): return self._cmp(o, "!=")

    def __bool__(self):
        if not self.t:
            return self.c != 0
        return _E.branch(Cond(self, "!="))

    # ---- realisation (needs a machine value: enumerate what the path condition allows)
    def __hash__(self):
        return hash(_E.realise(self))

    def __index__(self):
        if not self.isint:
            raise TypeError("'float' object cannot be interpreted as an integer")
        return int(_E.realise(self))

    def _floor(self):
        if self.isint:
            return self
        E = _E
        return SymNum(0, {E.new_atom(z3.ToInt(E.z3num(self)), True): 1}, True)

    def __int__(self):
        if self.isint:
            return int(_E.realise(self))
        # truncation toward zero of a symbolic real: a machine value is required, so the engine enumerates the integers the path
        # condition allows (needs a bounded variable; otherwise EngineLimit => inconclusive)
        if _E.branch(Cond(self, "<")):
            return -int(_E.realise((-self)._floor()))
        return int(_E.realise(self._floor()))

    def __float__(self):
        raise EngineLimit("float() of a symbolic number")

    def __round__(self, n=None):
        raise EngineLimit("round() of a symbolic number")

    def __ceil__(self):
        return -((-self)._floor())

    def __floor__(self):
        return self._floor()

    def __trunc__(self):
        return self.__int__()

    # ---- text: a marker token that maps back to the term
    def __format__(self, spec):
        return _E.marker(self, spec)

    def __str__(self):
        return _E.marker(self, "")

    def __repr__(self):
        names = _E.atom_names if _E is not None else {}
        parts = [f"{v}*{names.get(a, 'a%d' % a)}" for a, v in self.t.items()]
        return "Sym(" + " + ".join([str(self.c)] + parts) + ")"

    def is_integer(self):
        if self.isint:
            return True
        raise EngineLimit("is_integer of symbolic real")


# --------------------------------------------------------------------------------------------
# formula layer for oracles: works on SymBool / bool alike
# --------------------------------------------------------------------------------------------

class Formula:
    __slots__ = ("op", "args")

    def __init__(self, op, args):
        self.op = op
        self.args = args

    def __bool__(self):
        raise EngineLimit("Formula used as Python bool; use E.check/E.holds")


def And(*xs):
    flat = []
    for x in xs:
        if isinstance(x, (list, tuple)) or hasattr(x, "__next__"):
            flat.extend(x)
        else:
            flat.append(x)
    out = []
    for x in flat:
        if isinstance(x, (SymBool, Formula)):
            out.append(x)
        elif not x:
            return False
    if not out:
        return True
    return out[0] if len(out) == 1 else Formula("and", out)


def Or(*xs):
    flat = []
    for x in xs:
        if isinstance(x, (list, tuple)) or hasattr(x, "__next__"):
            flat.extend(x)
        else:
            flat.append(x)
    out = []
    for x in flat:
        if isinstance(x, (SymBool, Formula)):
            out.append(x)
        elif x:
            return True
    if not out:
        return False
    return out[0] if len(out) == 1 else Formula("or", out)


def Not(x):
    if isinstance(x, SymBool):
        return ~x
    if isinstance(x, Formula):
        return Formula("not", [x])
    return not x


def Implies(a, b):
    return Or(Not(a), b)


def Iff(a, b):
    return And(Implies(a, b), Implies(b, a))


def ite(c, a, b):
    """numeric if-then-else usable in both modes"""
    if isinstance(c, (SymBool, Formula)):
        E = _E
        za = E.z3num(_lift(a))
        zb = E.z3num(_lift(b))
        la, lb = _lift(a), _lift(b)
        isint = la.isint and lb.isint
        if not isint:
            za = z3.ToReal(za) if la.isint else za
            zb = z3.ToReal(zb) if lb.isint else zb
        return SymNum(0, {E.new_atom(z3.If(E.z3form(c), za, zb), isint): 1}, isint)
    return a if c else b


def smin(a, b):
    return ite(a <= b, a, b)


def smax(a, b):
    return ite(a >= b, a, b)


# --------------------------------------------------------------------------------------------
# symbolic engine
# --------------------------------------------------------------------------------------------

class SymEngine:
    symbolic = True

    def __init__(self, timeout_ms=10000, max_realise=64):
        self.solver = z3.Solver()
        self.solver.set("timeout", timeout_ms)
        self.timeout_ms = timeout_ms
        self.max_realise = max_realise
        self.depth = 0
        self.prefix = []
        self.trace = []
        self.forced = []
        self.max_depth = None
        self.nchecks = 0
        self.solver_time = 0.0
        self.unknowns = 0
        self.model = None
        self.mcache = {}
        self.atoms = {}
        self.atom_isint = {}
        self.atom_names = {}
        self.ccache = {}
        self.vcache = {}
        self.vars = {}          # name -> atom id, in creation order (per path)
        self.choices = []       # (label, value) per path
        self.markers = {}
        self.nonlinear = False
        self.realisations = 0
        self.crosscheck_every = 0
        self._xc_counter = 0
        self.xc = {}
        self.decided = {}
        self.watched = set()
        self.watch_hits = []
        self.prefer = None
        self.cands = []
        self.discharged = 0
        self.q_unknown = []
        self.tags = set()

    # ---- atoms / variables
    def new_atom(self, term, isint, name=None):
        i = term.get_id()
        if i not in self.atoms:
            self.atoms[i] = term
            self.atom_isint[i] = isint
            if name:
                self.atom_names[i] = name
        return i

    def _fresh(self, name, isint):
        a = self.vcache.get(name)
        if a is None:
            term = z3.Int(name) if isint else z3.Real(name)
            a = self.vcache[name] = self.new_atom(term, isint, name)
        elif self.atom_isint[a] != isint:
            raise ValueError(f"variable {name} re-declared with another sort")
        self.vars[name] = a
        return SymNum(0, {a: 1}, isint)

    def int(self, name):
        return self._fresh(name, True)

    def real(self, name):
        return self._fresh(name, False)

    # ---- conversion to z3
    @staticmethod
    def _zconst(k, isint):
        if isint:
            return z3.IntVal(int(k))
        if isinstance(k, Fraction) and k.denominator != 1:
            return z3.RealVal(f"{k.numerator}/{k.denominator}")
        return z3.RealVal(int(k))

    def z3num(self, x):
        if not isinstance(x, SymNum):
            x = _lift(x)
        parts = []
        isint = x.isint
        for a, k in x.t.items():
            t = self.atoms[a]
            if not isint and self.atom_isint[a]:
                t = z3.ToReal(t)
            parts.append(t if k == 1 else self._zconst(k, isint) * t)
        if x.c != 0 or not parts:
            parts.append(self._zconst(x.c, isint))
        return parts[0] if len(parts) == 1 else z3.Sum(parts)

    def z3cond(self, c):
        key = c.key()
        r = self.ccache.get(key)
        if r is None:
            l = self.z3num(c.lin)
            zero = z3.IntVal(0) if c.lin.isint else z3.RealVal(0)
            op = c.op
            r = l < zero if op == "<" else l <= zero if op == "<=" else l == zero if op == "==" else l != zero
            self.ccache[key] = r
        return r

    def z3form(self, f):
        if isinstance(f, SymBool):
            if not f.c.lin.t:
                v = f.c.const_truth()
                return z3.BoolVal((not v) if f.neg else v)
            z = self.z3cond(f.c)
            return z3.Not(z) if f.neg else z
        if isinstance(f, Formula):
            zs = [self.z3form(a) for a in f.args]
            return z3.And(zs) if f.op == "and" else z3.Or(zs) if f.op == "or" else z3.Not(zs[0])
        if isinstance(f, z3.BoolRef):
            return f
        return z3.BoolVal(bool(f))

    # ---- solver
    def _check(self, *extra):
        t = time.perf_counter()
        self.nchecks += 1
        r = self.solver.check(*extra)
        self.solver_time += time.perf_counter() - t
        if r == z3.unknown:
            self.unknowns += 1
            return None
        return r == z3.sat

    def _set_model(self, m):
        self.model = m
        self.mcache = {}

    def _need_model(self):
        if self.model is None:
            r = self._check()
            if r is None:
                raise Inconclusive("unknown while establishing a model of the path condition")
            if not r:
                raise Infeasible()
            self._set_model(self.solver.model())

    def _mval(self, a):
        v = self.mcache.get(a)
        if v is None:
            r = self.model.eval(self.atoms[a], model_completion=True)
            if z3.is_int_value(r):
                v = Fraction(r.as_long())
            elif z3.is_rational_value(r):
                v = Fraction(r.numerator_as_long(), r.denominator_as_long())
            elif z3.is_algebraic_value(r):
                ap = r.approx(30)
                v = Fraction(ap.numerator_as_long(), ap.denominator_as_long())
            else:
                raise Inconclusive(f"model value of unexpected kind: {r}")
            self.mcache[a] = v
        return v

    def model_value(self, x):
        """value of a SymNum (or plain number) in the current model"""
        if not isinstance(x, SymNum):
            return x
        self._need_model()
        s = Fraction(x.c)
        for a, k in x.t.items():
            s += k * self._mval(a)
        if s.denominator == 1:
            return int(s)
        return s

    def eval_cond(self, c):
        s = c.lin.c
        for a, k in c.lin.t.items():
            s += k * self._mval(a)
        op = c.op
        return s < 0 if op == "<" else s <= 0 if op == "<=" else s == 0 if op == "==" else s != 0

    def _push_assert(self, zc):
        self.solver.push()
        self.solver.add(zc)
        self.depth += 1

    # ---- harness API
    def _replay_entry(self, i):
        """re-apply decision i of the stored prefix (solver frames above self.depth are rebuilt)"""
        e = self.prefix[i]
        self.trace.append(e)
        if i >= self.depth:
            self.solver.push()
            self.depth += 1
            if e.kind == "A":
                self.solver.add(e.zc)
                self.model = None
            elif e.kind == "B":
                self.solver.add(e.zc if e.side else z3.Not(e.zc))
                if e.model is not None:
                    self._set_model(e.model)
                else:
                    self.model = None
        if e.kind == "B":
            self.decided[e.key] = e.side
        return e

    def assume(self, cond):
        if not isinstance(cond, (SymBool, Formula)):
            if not cond:
                raise Infeasible()
            return
        if isinstance(cond, SymBool) and not cond.c.lin.t:
            v = cond.c.const_truth()
            if (not v) if cond.neg else v:
                return
            raise Infeasible()
        i = len(self.trace)
        if i < len(self.prefix):
            self._replay_entry(i)
            return
        zc = self.z3form(cond)
        self.trace.append(Dec("A", zc=zc))
        self.solver.push()
        self.solver.add(zc)
        self.depth += 1
        if self.model is not None:
            if isinstance(cond, SymBool):
                ok = self.eval_cond(cond.c)
                if cond.neg:
                    ok = not ok
                if not ok:
                    self.model = None
            else:
                self.model = None

    def choose(self, options, label=None):
        options = list(options)
        n = len(options)
        if n == 0:
            raise Infeasible()
        if n == 1:
            self.choices.append((label, 0))
            return options[0]
        i = len(self.trace)
        if i < len(self.prefix):
            e = self._replay_entry(i)
            self.choices.append((label, e.side))
            return options[e.side]
        if i < len(self.forced):
            k = self.forced[i]
        elif self.max_depth is not None and self._ndecisions() >= self.max_depth:
            raise Truncate()
        else:
            k = 0
        self.trace.append(Dec("C", side=k, remaining=n - 1 - k))
        self.solver.push()
        self.depth += 1
        self.choices.append((label, k))
        return options[k]

    def branch(self, c):
        if not c.lin.t:
            return c.const_truth()
        key = c.key()
        if self.watched and self._mentions_watched(c.lin):
            self.watch_hits.append(repr(c.lin))
        known = self.decided.get(key)
        if known is not None:       # the same condition was already decided on this path
            return known
        i = len(self.trace)
        if i < len(self.prefix):
            return self._replay_entry(i).side
        zc = self.z3cond(c)
        if i < len(self.forced):
            side = bool(self.forced[i])
            self.decided[key] = side
            self.trace.append(Dec("B", side=side, zc=zc, key=key))
            self.solver.push()
            self.solver.add(zc if side else z3.Not(zc))
            self.depth += 1
            self.model = None
            return side
        if self.max_depth is not None and self._ndecisions() >= self.max_depth:
            raise Truncate()
        self._need_model()
        side = self.eval_cond(c)
        self.solver.push()
        self.solver.add(z3.Not(zc) if side else zc)
        feasible = self._check()
        om = None
        if feasible is None:
            feasible = True     # unknown: explore it; feasibility is re-examined further down
        elif feasible:
            om = self.solver.model()
        self.solver.pop()
        self.decided[key] = side
        self.trace.append(Dec("B", side=side, zc=zc, other=feasible, model=om, key=key))
        self.solver.push()
        self.solver.add(zc if side else z3.Not(zc))
        self.depth += 1
        return side

    def watch(self, *names):
        """record every branch condition that mentions one of these variables (non-interference checks)"""
        for n in names:
            self.watched.add(self.vcache[n])

    def _mentions_watched(self, lin):
        for a in lin.t:
            if a in self.watched:
                return True
            if a not in self.atom_names:        # opaque term (abs, product, ite ...): look inside
                if self._term_vars(self.atoms[a]) & {self.atoms[w].get_id() for w in self.watched}:
                    return True
        return False

    def _term_vars(self, term):
        cache = self.__dict__.setdefault("_tv_cache", {})
        i = term.get_id()
        if i in cache:
            return cache[i]
        out = set()
        if z3.is_const(term) and term.decl().kind() == z3.Z3_OP_UNINTERPRETED:
            out.add(i)
        for ch in term.children():
            out |= self._term_vars(ch)
        cache[i] = out
        return out

    def mentions(self, x, *names):
        """does the symbolic number x depend syntactically on one of the named variables?"""
        if not isinstance(x, SymNum):
            return False
        saved = self.watched
        self.watched = {self.vcache[n] for n in names}
        try:
            return self._mentions_watched(x)
        finally:
            self.watched = saved

    def _ndecisions(self):
        """number of real decisions (branches / choices, not assumptions) on the current path"""
        return sum(1 for e in self.trace if e.kind != "A")

    def realise(self, x):
        """machine value of a symbolic number: fork over every value the path allows"""
        if not x.t:
            return x.c
        self.realisations += 1
        n = 0
        while True:
            self._need_model()
            v = self.model_value(x)
            if self.branch(Cond(x._addsub(_lift(v), -1), "==")):
                return v
            n += 1
            if n > self.max_realise:
                raise EngineLimit("realisation of a variable without a small finite domain")

    def marker(self, x, spec):
        k = f"@@{len(self.markers)}:{spec}@@"
        self.markers[k] = (x, spec)
        return k

    # ---- deciding the property on the path
    def _with_model(self, m):
        saved = (self.model, self.mcache)
        self._set_model(m)
        try:
            return self.snapshot()
        finally:
            self.model, self.mcache = saved

    def sat(self, formula, integral=False):
        """is pc & formula satisfiable?  returns a snapshot (dict), False, or None (unknown)"""
        z = self.z3form(formula)
        if z3.is_false(z):
            return False
        self.solver.push()
        self.solver.add(z)
        try:
            r = self._check()
            if r is not None and self.crosscheck_every:
                self._xc_counter += 1
                if self._xc_counter % self.crosscheck_every == 0:
                    self._crosscheck(r)
            if r is None:
                return None
            if not r:
                return False
            m = self.solver.model()
            if integral and not self.nonlinear:
                ints = [z3.IsInt(self.atoms[a]) for a in self.vars.values() if not self.atom_isint[a]]
                if ints:
                    self.solver.push()
                    self.solver.add(*ints)
                    self.solver.set("timeout", 2000)
                    t = time.perf_counter()
                    r2 = self.solver.check()
                    self.solver_time += time.perf_counter() - t
                    self.nchecks += 1
                    if r2 == z3.sat:
                        m = self.solver.model()
                    self.solver.set("timeout", self.timeout_ms)
                    self.solver.pop()
            return self._with_model(m)
        finally:
            self.solver.pop()

    def _crosscheck(self, z3_sat):
        """re-decide the current query (path condition + formula) with cvc5 from its SMT-LIB dump"""
        try:
            import cvc5
            text = "(set-logic ALL)\n" + self.solver.to_smt2()
            slv = cvc5.Solver()
            slv.setOption("tlimit-per", "5000")
            parser = cvc5.InputParser(slv)
            parser.setStringInput(cvc5.InputLanguage.SMT_LIB_2_6, text, "query")
            sm = parser.getSymbolManager()
            verdict = None
            while True:
                cmd = parser.nextCommand()
                if cmd.isNull():
                    break
                out = str(cmd.invoke(slv, sm)).strip()
                if out in ("sat", "unsat", "unknown"):
                    verdict = out
        except Exception as ex:  # noqa
            self.xc["error"] = self.xc.get("error", 0) + 1
            return
        if verdict in (None, "unknown"):
            self.xc["unknown"] = self.xc.get("unknown", 0) + 1
        elif (verdict == "sat") == bool(z3_sat):
            self.xc["agree"] = self.xc.get("agree", 0) + 1
        else:
            self.xc["disagree"] = self.xc.get("disagree", 0) + 1
            self.xc.setdefault("disagreements", []).append(text[:2000])

    def snapshot(self):
        """concrete inputs of the current model: variable values + choices"""
        self._need_model()
        vals = {}
        for name, a in self.vars.items():
            v = self._mval(a)
            vals[name] = int(v) if v.denominator == 1 else v
        return {"vars": vals, "choices": [c for _, c in self.choices]}

    def check(self, name, formula):
        """the property clause `formula` must be valid under the path condition"""
        if TWIN:            # reachability twin: every clause is replaced by `false`; the check must then report a violation
            formula = False
        if not isinstance(formula, (SymBool, Formula)):
            if formula:
                self.discharged += 1
            else:
                self.fail(name)
            return
        r = self.sat(Not(formula), integral=True)
        if r is False:
            self.discharged += 1
        elif r is None:
            self.q_unknown.append(name)
        else:
            if self.prefer is not None:     # a counterexample exists: prefer one that also satisfies the harness's hints
                r2 = self.sat(And(Not(formula), self.prefer), integral=True)
                if r2:
                    self.cands.append((name, r2))
            self.cands.append((name, r))

    def fail(self, name, detail=None):
        """the path itself violates the property (structural fact / exception)"""
        try:
            r = self.sat(True, integral=True)
        except Inconclusive:
            r = None
        if r is None or r is False:
            self.q_unknown.append(name)
        else:
            if self.prefer is not None:
                r2 = self.sat(self.prefer, integral=True)
                if r2:
                    self.cands.append((name, r2))
            self.cands.append((name, r))

    def holds(self, formula):
        """True iff formula is valid on this path (no recording); None if unknown"""
        if not isinstance(formula, (SymBool, Formula)):
            return bool(formula)
        r = self.sat(Not(formula))
        return None if r is None else (r is False)

    def possible(self, formula):
        if not isinstance(formula, (SymBool, Formula)):
            return bool(formula)
        r = self.sat(formula)
        return None if r is None else (r is not False)

    def tag(self, *names):
        self.tags.update(names)

    def concretize(self, obj):
        if isinstance(obj, SymNum):
            return self.model_value(obj)
        if isinstance(obj, (list, tuple)):
            return [self.concretize(x) for x in obj]
        if isinstance(obj, dict):
            return {k: self.concretize(v) for k, v in obj.items()}
        if isinstance(obj, str) and "@@" in obj:
            for k, (x, spec) in self.markers.items():
                if k in obj:
                    obj = obj.replace(k, format(_pyval(self.model_value(x)), spec))
            return obj
        return obj

    # ---- exploration
    def explore(self, fn, forced=(), max_depth=None, max_paths=None, deadline=None, on_path=None, slice_s=None):
        """run fn(self) over every feasible path below the forced decision prefix.

        on_path(outcome, engine) is called after each completed path with outcome
        ("ok", result) or ("inconclusive", reason).  Returns dict(paths, truncated, exhausted)."""
        self.forced = list(forced)
        self.max_depth = max_depth
        t_begin = time.time()
        nf = len(self.forced)
        self.prefix = []
        npaths = 0
        truncated = []
        exhausted = True
        while True:
            self.trace = []
            self.vars = {}
            self.choices = []
            self.markers = {}
            self.cands = []
            self.discharged = 0
            self.q_unknown = []
            self.tags = set()
            self.decided = {}
            self.watched = set()
            self.watch_hits = []
            self.prefer = None
            if self.depth == 0:
                self.model = None
            outcome = None
            try:
                outcome = ("ok", fn(self))
            except Infeasible:
                outcome = None
            except Truncate:
                truncated.append(self.decision_vector())
                outcome = None
            except Inconclusive as ex:
                outcome = ("inconclusive", str(ex))
            except EngineLimit as ex:
                outcome = ("inconclusive", "engine limit: " + str(ex))
            if outcome is not None:
                npaths += 1
                if on_path:
                    on_path(outcome, self)
            tr = self.trace
            while tr:
                idx = len(tr) - 1
                if idx < nf:
                    tr = []
                    break
                last = tr[-1]
                if last.kind == "C" and last.remaining > 0:
                    tr[-1] = Dec("C", side=last.side + 1, remaining=last.remaining - 1)
                    break
                if last.kind == "B" and last.other:
                    tr[-1] = Dec("B", side=not last.side, zc=last.zc, other=False, model=last.model, key=last.key)
                    break
                tr.pop()
            if not tr:
                break
            L = len(tr)
            while self.depth > L - 1:
                self.solver.pop()
                self.depth -= 1
            self.prefix = tr
            self.model = None
            if (max_paths is not None and npaths >= max_paths) or (deadline is not None and time.time() > deadline):
                exhausted = False
                break
            if slice_s is not None and time.time() - t_begin > slice_s:
                truncated.extend(self._pending(tr, nf))     # hand the rest of the subtree over as new tasks
                break
        while self.depth:
            self.solver.pop()
            self.depth -= 1
        self.prefix = []
        return {"paths": npaths, "truncated": truncated, "exhausted": exhausted}

    def decision_vector(self):
        return [-1 if e.kind == "A" else int(e.side) for e in self.trace]

    @staticmethod
    def _pending(tr, nf):
        """forced prefixes covering exactly the unexplored remainder of the DFS whose next path starts with `tr`"""
        vec = [-1 if e.kind == "A" else int(e.side) for e in tr]
        out = [list(vec)]
        for idx in range(nf, len(tr) - 1):
            e = tr[idx]
            if e.kind == "B" and e.other:
                out.append(vec[:idx] + [int(not e.side)])
            elif e.kind == "C":
                for k in range(e.side + 1, e.side + 1 + e.remaining):
                    out.append(vec[:idx] + [k])
        return out


class Dec:
    """one entry of the decision vector: Assumption, Choice or Branch"""
    __slots__ = ("kind", "side", "remaining", "zc", "other", "model", "key")

    def __init__(self, kind, side=0, remaining=0, zc=None, other=False, model=None, key=None):
        self.key = key
        self.kind = kind
        self.side = side
        self.remaining = remaining
        self.zc = zc
        self.other = other
        self.model = model


def _pyval(v):
    if isinstance(v, Fraction) and v.denominator == 1:
        return int(v)
    return v


# --------------------------------------------------------------------------------------------
# exact concrete reals: a Fraction that stays exact when the code mixes it with float literals
# (the symbolic model treats floats as exact reals; this is the same model on concrete values)
# --------------------------------------------------------------------------------------------

def _ex(o):
    if isinstance(o, float):
        if o != o or o in (math.inf, -math.inf):
            return o
        return Fraction(o)
    try:
        import numpy as np
        if isinstance(o, np.floating):
            return _ex(float(o))
        if isinstance(o, np.integer):
            return int(o)
    except ImportError:  # pragma: no cover
        pass
    return o


def _wrap(r):
    if isinstance(r, Fraction) and not isinstance(r, XFrac):
        return XFrac(r)
    return r


class XFrac(Fraction):

    def __add__(self, o): return _wrap(Fraction.__add__(self, _ex(o)))
    def __radd__(self, o): return _wrap(Fraction.__radd__(self, _ex(o)))
    def __sub__(self, o): return _wrap(Fraction.__sub__(self, _ex(o)))
    def __rsub__(self, o): return _wrap(Fraction.__rsub__(self, _ex(o)))
    def __mul__(self, o): return _wrap(Fraction.__mul__(self, _ex(o)))
    def __rmul__(self, o): return _wrap(Fraction.__rmul__(self, _ex(o)))
    def __truediv__(self, o): return _wrap(Fraction.__truediv__(self, _ex(o)))
    def __rtruediv__(self, o): return _wrap(Fraction.__rtruediv__(self, _ex(o)))
    def __floordiv__(self, o): return Fraction.__floordiv__(self, _ex(o))
    def __mod__(self, o): return _wrap(Fraction.__mod__(self, _ex(o)))
    def __pow__(self, o): return _wrap(Fraction.__pow__(self, o))
    def __neg__(self): return XFrac(Fraction.__neg__(self))
    def __pos__(self): return self
    def __abs__(self): return XFrac(Fraction.__abs__(self))
    def __hash__(self): return Fraction.__hash__(self)
    def __eq__(self, o): return Fraction.__eq__(self, o)

    def __repr__(self):
        return str(self.numerator) if self.denominator == 1 else f"{self.numerator}/{self.denominator}"

    def is_integer(self):
        return self.denominator == 1


# --------------------------------------------------------------------------------------------
# concrete engine: same harness body on plain numbers
# --------------------------------------------------------------------------------------------

class ConcreteEngine:
    symbolic = False

    def __init__(self, snapshot, as_float=False):
        self.vals = snapshot["vars"]
        self.chs = list(snapshot["choices"])
        self.ci = 0
        self.as_float = as_float
        self.markers = {}
        self.used = {}
        self.failures = []
        self.tags = set()
        self.discharged = 0

    def _get(self, name, isint):
        if name not in self.vals:
            raise Infeasible()  # variable not on the recorded path: treat as non-reproducing
        v = self.vals[name]
        if isinstance(v, str):
            v = Fraction(v)
        if isint:
            v = int(v)
        elif self.as_float:
            v = float(v)
        else:
            v = XFrac(v)
        self.used[name] = v
        return v

    def int(self, name):
        return self._get(name, True)

    def real(self, name):
        return self._get(name, False)

    def assume(self, cond):
        if isinstance(cond, Formula):
            raise EngineLimit("formula in concrete mode")
        if not cond:
            raise Infeasible()

    def choose(self, options, label=None):
        options = list(options)
        if not options:
            raise Infeasible()
        if self.ci >= len(self.chs):
            raise Infeasible()
        k = self.chs[self.ci]
        self.ci += 1
        if k >= len(options):
            raise Infeasible()
        return options[k]

    def model_value(self, x):
        return x

    def marker(self, x, spec):
        return format(x, spec)

    def check(self, name, formula):
        if TWIN:
            formula = False
        if isinstance(formula, (SymBool, Formula)):
            raise EngineLimit("symbolic formula in concrete mode")
        if formula:
            self.discharged += 1
        else:
            self.failures.append(name)

    def fail(self, name, detail=None):
        self.failures.append(name)

    def holds(self, formula):
        return bool(formula)

    def possible(self, formula):
        return bool(formula)

    def tag(self, *names):
        self.tags.update(names)

    def concretize(self, obj):
        return obj

    def watch(self, *names):
        pass

    watch_hits = ()
    prefer = None

    def mentions(self, x, *names):
        return False
