"""C04 -- see harness/pipeline.py (Level 1: whole Aligner.align on tiny symbolic maps)."""
from harness import pipeline, level2, multipass


def units(prop):
    return [pipeline.level1_unit(prop), level2.level2_unit(prop), level2.pair_unit(prop), multipass.multipass_unit(prop), args_unit()]


# ------------------------------------------------------------------------------------------------ command-line wiring (concrete)
from symx.runner import Unit  # noqa: E402


def body_args(E, cfg):
    """NOT solver-decided (argparse takes concrete strings): each scoring option given on the command line must arrive, through
    Args.parse and WorkflowCoordinatorFactory.create, in the component that uses it."""
    import os
    import tempfile
    from src.args import Args
    from src.extensions.dispatcher import Dispatcher
    from src.workflow_coordinator_factory import WorkflowCoordinatorFactory
    vals = E.choose(cfg["value_sets"], "value-set")
    d = tempfile.mkdtemp(prefix="coma_c04_")
    try:
        for n in ("r.cmap", "q.cmap"):
            open(os.path.join(d, n), "w").write("#h CMapId\n")
        argv = ["-r", os.path.join(d, "r.cmap"), "-q", os.path.join(d, "q.cmap"), "-o", os.path.join(d, "o.xmap"),
                "-sp", str(vals["sp"]), "-dp", str(vals["dp"]), "-su", str(vals["su"]), "-d", str(vals["d"]), "-ms", str(vals["ms"]),
                "-bs", str(vals["bs"]), "-sj", str(vals["sj"]), "-ss", str(vals["ss"]), "-p", str(vals["p"]), "-diff", str(vals["diff"])]
        try:
            args = Args.parse(argv)
            coord = WorkflowCoordinatorFactory(args, Dispatcher([]), None).create()
        except BaseException as ex:  # noqa
            E.fail("exception:" + type(ex).__name__)
            return ["exception", type(ex).__name__]
        for f in (args.referenceFile, args.queryFile, args.outputFile):
            try:
                f.close()
            except Exception:  # noqa
                pass
    finally:
        import shutil
        shutil.rmtree(d, ignore_errors=True)
    E.tag("nontrivial")
    a = coord.aligner
    E.check("perfectMatchScore-reaches-the-position-scorer", a.scorer.perfectMatchScore == vals["sp"])
    E.check("distancePenaltyMultiplier-reaches-the-position-scorer", a.scorer.distancePenaltyMultiplier == vals["dp"])
    E.check("unmatchedPenalty-reaches-the-position-scorer", a.scorer.unmatchedPenalty == vals["su"])
    E.check("maxPairDistance-reaches-the-pairing-engine", a.alignmentEngine.maxDistance == vals["d"])
    E.check("minScore-reaches-the-segment-factory", a.segmentsFactory.minScore == vals["ms"])
    E.check("breakSegmentThreshold-reaches-the-segment-factory", a.segmentsFactory.breakSegmentThreshold == vals["bs"])
    sc = a.segmentConflictResolver.segmentChainer.sequentialityScorer
    E.check("join-options-reach-the-sequentiality-scorer", sc.segmentJoinMultiplier == vals["sj"] and sc.sequentialityScore == vals["ss"])
    E.check("peaksCount-and-maxDifference", coord.peaksSelector.count == vals["p"] and args.peaksCount == vals["p"] and args.maxDifference == vals["diff"])
    return [sorted(vals.items())]


def args_unit():
    sets = [dict(sp=11, dp=0.5, su=-7, d=13, ms=17, bs=19, sj=0.25, ss=1, p=2, diff=23),
            dict(sp=1000, dp=2.0, su=-250, d=1500, ms=900, bs=1300, sj=1.0, ss=0, p=5, diff=50000)]
    return Unit(name="command-line-wiring", body=body_args, configs=lambda tier: [dict(value_sets=sets)], witness=False,
                functions=["src.args:Args.parse", "src.workflow_coordinator_factory:WorkflowCoordinatorFactory.create"],
                bounds="NOT solver-decided: two concrete option sets with pairwise distinct values through Args.parse and the factory",
                nontrivial_rule="every option set",
                assumptions=["argparse takes concrete strings; this is a concrete wiring confirmation"],
                outside=["other option values"])
