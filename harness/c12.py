"""C12 -- pairing along a seed diagonal partitions labels and pairs nearest neighbours.

Real code executed: AlignerEngine.align (window selection, candidate pairs, AlignedPair.deduplicate, unpaired positions,
sorting) with OpticalMap.getPositionsWithSiteIds on both strands, including fragments with a label-number offset.
"""
from symx import And, Or, Not, Implies
from symx.runner import Unit

from src.alignment.aligner import AlignerEngine
from src.alignment.alignment_position import AlignedPair, NotAlignedReferencePosition, NotAlignedQueryPosition
from src.correlation.optical_map import OpticalMap


def ascending(E, name, k, strict, first_ge=0):
    xs = []
    for i in range(k):
        v = E.real(f"{name}{i}")
        if i == 0:
            E.assume(v >= first_ge)
        else:
            E.assume(v > xs[-1] if strict else v >= xs[-1])
        xs.append(v)
    return xs


def body(E, cfg):
    KR, KQ, rev, strict, shift = cfg["KR"], cfg["KQ"], cfg["rev"], cfg["strict"], cfg["shift"]
    r = ascending(E, "r", KR, strict)
    q = ascending(E, "q", KQ, strict)
    start = E.real("seed")
    end = E.real("end")
    maxD = E.real("maxD")
    qlen = E.real("qlen")
    E.assume(end >= start)
    E.assume(maxD >= 0)
    E.assume(qlen >= (q[-1] + 1 if q else 1))
    R = OpticalMap(1, (r[-1] + 10) if r else 10, list(r))
    Q = OpticalMap(7, qlen, list(q), shift=shift)
    try:
        engine = AlignerEngine(maxD)
        if cfg.get("prior"):
            # history: the same engine object has already been used on ANOTHER reference map carrying the same molecule id and on
            # another query (an engine lives as long as its Aligner); nothing of that call may leak into this one
            d = E.real("priorLabel")
            E.assume(d >= 0)
            engine.align(OpticalMap(1, d + 10, [d]), OpticalMap(7, qlen, [0], shift=shift), start, end, rev)
        res = engine.align(R, Q, start, end, rev)
    except Exception as ex:  # noqa
        E.fail("exception:" + type(ex).__name__)
        return ["exception", type(ex).__name__]

    # expected label numbering / strand coordinates, computed independently of the code
    rlab = {i + 1: r[i] for i in range(KR)}
    qlab = {i + 1 + shift: ((qlen - 1 - q[i]) if rev else q[i]) for i in range(KQ)}
    pairs = [p for p in res if isinstance(p, AlignedPair)]
    ur = [p for p in res if isinstance(p, NotAlignedReferencePosition)]
    uq = [p for p in res if isinstance(p, NotAlignedQueryPosition)]
    E.check("only-pairs-and-unpaired-positions", len(pairs) + len(ur) + len(uq) == len(res))
    rids = [p.reference.siteId for p in pairs] + [p.reference.siteId for p in ur]
    qids = [p.query.siteId for p in pairs] + [p.query.siteId for p in uq]
    known = all(i in rlab for i in rids) and all(j in qlab for j in qids)
    E.check("labels-exist", known)
    if not known:
        return ["unknown-label"]
    if pairs:
        E.tag("nontrivial")
    if len(pairs) >= 2:
        E.tag("two-pairs")
    # coordinates carried by the returned objects are the maps' coordinates
    E.check("coordinates-are-the-maps'", And(
        [p.reference.position == rlab[p.reference.siteId] for p in pairs + ur] +
        [p.query.position == qlab[p.query.siteId] for p in pairs + uq]))

    def inwin(i):
        return And(rlab[i] >= start - maxD, rlab[i] <= end + maxD)

    # (a) partition
    E.check("a:every-query-label-exactly-once", sorted(qids) == sorted(qlab))
    E.check("a:reference-labels-at-most-once", len(set(rids)) == len(rids))
    E.check("a:reference-label-listed-iff-in-window",
            And([inwin(i) if i in rids else Not(inwin(i)) for i in rlab]))
    # (b) ascending position order
    E.check("b:ascending-position-order", And([x.absolutePosition <= y.absolutePosition for x, y in zip(res, res[1:])]))
    E.check("b:unpaired-query-position-is-on-reference-axis",
            And([p.absolutePosition == qlab[p.query.siteId] + start for p in uq]))
    # (c) offsets
    E.check("c:offset-definition-and-bound", And(
        [And(p.queryShift == qlab[p.query.siteId] - (rlab[p.reference.siteId] - start),
             p.queryShift <= maxD, p.queryShift >= -maxD) for p in pairs]))
    # (d) one-to-one, order preserving
    E.check("d:one-to-one", len({p.reference.siteId for p in pairs}) == len(pairs)
            and len({p.query.siteId for p in pairs}) == len(pairs))
    op = []
    for a in pairs:
        for b in pairs:
            if a is not b:
                op.append(Implies(rlab[a.reference.siteId] < rlab[b.reference.siteId],
                                  qlab[a.query.siteId] <= qlab[b.query.siteId]))
                op.append(Implies(qlab[a.query.siteId] < qlab[b.query.siteId],
                                  rlab[a.reference.siteId] <= rlab[b.reference.siteId]))
    E.check("d:order-preserving", And(op))
    # (e) mutual strict nearest partners within maxD are paired
    paired = {(p.reference.siteId, p.query.siteId) for p in pairs}

    def dist(i, j):
        return abs(qlab[j] - (rlab[i] - start))

    mn = []
    for i in rlab:
        for j in qlab:
            if (i, j) in paired:
                continue
            nearest = And([inwin(i), dist(i, j) <= maxD] +
                          [Or(Not(inwin(i2)), dist(i, j) < dist(i2, j)) for i2 in rlab if i2 != i] +
                          [dist(i, j) < dist(i, j2) for j2 in qlab if j2 != j])
            mn.append(Not(nearest))
    E.check("e:mutual-strict-nearest-are-paired", And(mn))
    out = [[p.reference.siteId if not isinstance(p, NotAlignedQueryPosition) else None,
            p.query.siteId if not isinstance(p, NotAlignedReferencePosition) else None] for p in res]
    return out


def configs(tier):
    cfgs = []
    if tier == "quick":
        sizes = [(a, b) for a in range(0, 4) for b in range(0, 4)]
    else:
        sizes = [(a, b) for a in range(0, 6) for b in range(0, 5) if a * b <= 16]
    for KR, KQ in sizes:
        for rev in (False, True):
            for strict in (True, False):
                if not strict and (KR + KQ < 2 or (tier == "quick" and KR * KQ > 6) or KR * KQ > 12):
                    continue
                cfgs.append({"KR": KR, "KQ": KQ, "rev": rev, "strict": strict, "shift": 3 if (KR + KQ) % 2 else 0})
                if strict and KR * KQ <= (4 if tier == "quick" else 6):
                    cfgs.append({"KR": KR, "KQ": KQ, "rev": rev, "strict": strict, "shift": 3 if (KR + KQ) % 2 else 0, "prior": True})
    return cfgs


def shard_depth(cfg, tier):
    return 14 if cfg["KR"] * cfg["KQ"] >= 9 else None


def units(prop):
    return [Unit(
        name="AlignerEngine.align",
        body=body, configs=configs, shard_depth=shard_depth,
        functions=["src.alignment.aligner:AlignerEngine", "src.alignment.alignment_position:AlignedPair.deduplicate",
                   "src.alignment.alignment_position:AlignedPair",
                   "src.alignment.alignment_position:NotAlignedQueryPosition",
                   "src.alignment.alignment_position:NotAlignedReferencePosition",
                   "src.correlation.optical_map:OpticalMap.getPositionsWithSiteIds"],
        bounds="reference labels 0..3 x query labels 0..3 (quick) / up to 5 x 4 with product <= 16 (thorough), both strands, "
               "strictly increasing and non-decreasing (coincident) coordinates, label-number offset 0 or 3; all coordinates, the "
               "seed, the window end (>= seed), maxDistance >= 0 and the query length are unbounded symbolic reals; for <= 2 x 2 labels (thorough "
               "product <= 6) also after a previous call of the same engine on another one-label reference with the same id",
        nontrivial_rule="path on which at least one pair is returned",
        assumptions=["labels of a map are in non-decreasing order (reader sorts them)", "window end >= seed (callers pass seed + query length)",
                     "query length > last query label", "maxDistance >= 0", "exact real arithmetic"],
        outside=["maps with more labels than the bound"],
    )]
