"""C14 -- the chain is a best-scoring admissible order-respecting selection of segments.

Units
  chain-dp      real SegmentChainer.chain with an injected scorer that returns, per ordered pair, minus infinity or a fresh
                symbolic value <= 0; segment scores and end coordinates symbolic.
  join-score    real SequentialityScorer.getScore on two segments (1 or 2 pairs each), both strands, both variants,
                multiplier from a concrete set; non-linear real arithmetic.
  chain-real    real chainer + real scorer on 2-3 segments: consecutive members are admissible by the statement's own
                overlap rule.
Strand coordinates: exactly what the pipeline hands to the chainer -- positions ascending along the chain on both strands,
query label numbers descending on the reverse strand (OpticalMap.getPositionsWithSiteIds(True)).
"""
import itertools
import math
from fractions import Fraction

from symx import And, Or, Not, Implies, SymNum, smin
from symx.runner import Unit

from src.alignment.alignment_position import ScoredAlignedPair, AlignedPair
from src.alignment.segment_chainer import SegmentChainer, SequentialityScorer
from src.alignment.segments import AlignmentSegment, EmptyAlignmentSegment
from src.correlation.optical_map import PositionWithSiteId
from src.correlation.peak import Peak


def is_inf(x):
    return isinstance(x, float) and x == -math.inf


def mk_segment(E, tag, rev, single, score, base_id):
    """segment with symbolic end coordinates in strand coordinates; returns (segment, coords)"""
    a = E.real(f"{tag}_refStart")
    qa = E.real(f"{tag}_qryStart")
    if single:
        b, qb = a, qa
        pairs = [ScoredAlignedPair(AlignedPair(PositionWithSiteId(base_id, a), PositionWithSiteId(100 - base_id if rev else base_id, qa)), score)]
    else:
        b = E.real(f"{tag}_refEnd")
        qb = E.real(f"{tag}_qryEnd")
        E.assume(b > a)
        E.assume(qb > qa)
        ids = (100 - base_id, 100 - base_id - 1) if rev else (base_id, base_id + 1)
        pairs = [ScoredAlignedPair(AlignedPair(PositionWithSiteId(base_id, a), PositionWithSiteId(ids[0], qa)), score),
                 ScoredAlignedPair(AlignedPair(PositionWithSiteId(base_id + 1, b), PositionWithSiteId(ids[1], qb)), 0)]
    seg = AlignmentSegment(pairs, score, Peak(0, 1.), pairs)
    seg.tag = tag
    seg.coords = (a, b, qa, qb)
    return seg


# ------------------------------------------------------------------------------------------------ chain-dp

class StubScorer:
    def __init__(self, E):
        self.E = E
        self.memo = {}

    def getScore(self, prev, cur):
        k = (prev.tag, cur.tag)
        if k not in self.memo:
            if self.E.choose([False, True], f"inf_{prev.tag}_{cur.tag}"):
                self.memo[k] = -math.inf
            else:
                v = self.E.real(f"join_{prev.tag}_{cur.tag}")
                self.E.assume(v <= 0)
                self.memo[k] = v
        return self.memo[k]


def body_dp(E, cfg):
    n, nempty, symbolic_keys = cfg["n"], cfg["empties"], cfg["symkeys"]
    segs = []
    for i in range(n):
        sc = E.real(f"score{i}")
        if cfg.get("positive_scores", True):
            E.assume(sc > 0)
        if symbolic_keys:
            seg = mk_segment(E, f"s{i}", False, False, sc, 2 * i + 1)
        else:
            pairs = [ScoredAlignedPair(AlignedPair(PositionWithSiteId(2 * i + 1, 100 * i), PositionWithSiteId(2 * i + 1, 100 * i)), sc),
                     ScoredAlignedPair(AlignedPair(PositionWithSiteId(2 * i + 2, 100 * i + 50), PositionWithSiteId(2 * i + 2, 100 * i + 50)), 0)]
            seg = AlignmentSegment(pairs, sc, Peak(0, 1.), pairs)
            seg.tag = f"s{i}"
            seg.coords = (100 * i, 100 * i + 50, 100 * i, 100 * i + 50)
        segs.append(seg)
    keys = {s.tag: s.coords[0] + s.coords[1] + s.coords[2] + s.coords[3] for s in segs}
    if symbolic_keys:   # ties in the pre-order key are outside this unit (stable-sort order is not part of the statement)
        for x, y in itertools.combinations(segs, 2):
            E.assume(Not(keys[x.tag] == keys[y.tag]))
    empties = [EmptyAlignmentSegment(Peak(7, 1.), []) for _ in range(nempty)]
    given = list(segs)
    for k, e in enumerate(empties):   # interleave
        given.insert(min(len(given), 2 * k), e)
    stub = StubScorer(E)
    try:
        res = SegmentChainer(stub).chain(given)
    except Exception as ex:  # noqa
        E.fail("exception:" + type(ex).__name__)
        return ["exception", type(ex).__name__]
    chain = [s for s in res if not s.empty]
    E.check("empty-segments-passed-through", [id(s) for s in res if s.empty] == [id(e) for e in empties] and
            all(s.empty for s in res[len(chain):]) and not any(s.empty for s in res[:len(chain)]))
    E.check("subset-without-repeats", all(any(s is g for g in segs) for s in chain) and len({id(s) for s in chain}) == len(chain)
            and (len(chain) >= 1 if n else len(chain) == 0))
    if n >= 2:
        E.tag("nontrivial")
    if n == 0:
        return []
    E.check("ordered-along-the-diagonal", And([keys[x.tag] <= keys[y.tag] for x, y in zip(chain, chain[1:])]))

    def join(x, y):
        return stub.memo.get((x.tag, y.tag), "unasked")

    def total(seq):
        t = 0
        for k, s in enumerate(seq):
            t = t + s.segmentScore
            if k:
                j = join(seq[k - 1], s)
                if is_inf(j) or isinstance(j, str):
                    return None
                t = t + j
        return t

    mine = total(chain)
    E.check("total-never-minus-infinity", mine is not None)
    if mine is None:
        return [s.tag for s in chain]
    # every order-respecting alternative (in ascending key order) whose joins are all admissible
    alts = []
    for m in range(1, n + 1):
        for sub in itertools.combinations(segs, m):
            for perm in ([sub] if not symbolic_keys else itertools.permutations(sub)):
                asc = And([keys[x.tag] < keys[y.tag] for x, y in zip(perm, perm[1:])])
                if asc is False:
                    continue
                js = [join(x, y) for x, y in zip(perm, perm[1:])]
                if any(is_inf(j) for j in js):
                    continue
                if any(isinstance(j, str) for j in js):
                    # join never requested by the DP: only possible when the order is infeasible on this path
                    alts.append(Not(asc))
                    continue
                alts.append(Implies(asc, mine >= total(list(perm))))
    E.check("total-is-maximal-among-order-respecting-subsets", And(alts))
    return [s.tag for s in chain]


def configs_dp(tier):
    cfgs = [{"n": 0, "empties": 1, "symkeys": False}, {"n": 1, "empties": 1, "symkeys": False}]
    cfgs += [{"n": 2, "empties": 1, "symkeys": True}, {"n": 3, "empties": 0, "symkeys": True},
             {"n": 3, "empties": 2, "symkeys": False}, {"n": 2, "empties": 0, "symkeys": True, "positive_scores": False}]
    if tier == "quick":
        cfgs += [{"n": 4, "empties": 0, "symkeys": False}]
    else:
        cfgs += [{"n": 4, "empties": 1, "symkeys": False}, {"n": 4, "empties": 0, "symkeys": True},
                 {"n": 5, "empties": 0, "symkeys": False}, {"n": 3, "empties": 0, "symkeys": True, "positive_scores": False}]
    return cfgs


# ------------------------------------------------------------------------------------------------ join-score

def overlap_rule(prev, cur):
    """the statement's admissibility rule in strand coordinates: overlap on either map exceeds half the shorter extent"""
    a, b, qa, qb = prev.coords
    c, d, qc, qd = cur.coords
    ref_overlap = b - c
    qry_overlap = qb - qc
    ref_short = smin(d - c, b - a)
    qry_short = smin(qd - qc, qb - qa)
    return Or(2 * ref_overlap > ref_short, 2 * qry_overlap > qry_short), (c - b), (qc - qb)


def body_join(E, cfg):
    rev, variant, mult = cfg["rev"], cfg["variant"], Fraction(cfg["mult"])
    prev = mk_segment(E, "prev", rev, cfg["single_prev"], 1.0, 10)
    cur = mk_segment(E, "cur", rev, cfg["single_cur"], 1.0, 20)
    try:
        score = SequentialityScorer(mult, variant).getScore(prev, cur)
    except Exception as ex:  # noqa
        E.fail("exception:" + type(ex).__name__)
        return ["exception", type(ex).__name__]
    E.tag("nontrivial")
    too_much, ref_dist, qry_dist = overlap_rule(prev, cur)
    if is_inf(score):
        E.tag("minus-infinity")
        return ["-inf"]
    E.tag("finite")
    E.check("finite-join-score-only-without-excessive-overlap", Not(too_much))
    E.check("join-score-never-positive", score <= 0)
    E.check("contiguous-join-scores-zero", Implies(And(ref_dist == 0, qry_dist == 0), score == 0))
    return ["finite", score]


def configs_join(tier):
    cfgs = []
    for rev in (False, True):
        for variant in (0, 1):
            for mult in (["1", "1/2"] if tier == "quick" else ["0", "1/2", "1", "2"]):
                for sp, sc in ((False, False), (True, False), (False, True), (True, True)):
                    if tier == "quick" and mult != "1" and (sp or sc):
                        continue
                    cfgs.append({"rev": rev, "variant": variant, "mult": mult, "single_prev": sp, "single_cur": sc})
    return cfgs


def classify_join(cfg, snap, failures, out):
    if cfg["rev"] and not cfg["single_prev"] and not cfg["single_cur"] and failures == ["finite-join-score-only-without-excessive-overlap"]:
        return "reverse-strand-query-distance-sign"
    if cfg["rev"] and not cfg["single_cur"] and failures == ["finite-join-score-only-without-excessive-overlap"]:
        return "reverse-strand-query-distance-sign"
    return None


# ------------------------------------------------------------------------------------------------ chain-real

def body_real(E, cfg):
    n, rev, mult = cfg["n"], cfg["rev"], Fraction(cfg["mult"])
    segs = []
    for i in range(n):
        sc = E.real(f"score{i}")
        E.assume(sc > 0)
        segs.append(mk_segment(E, f"s{i}", rev, cfg.get("single", False), sc, 10 * (i + 1)))
    if cfg.get("presorted"):
        for x, y in zip(segs, segs[1:]):
            E.assume(sum(x.coords) <= sum(y.coords))
    try:
        res = SegmentChainer(SequentialityScorer(mult, cfg["variant"])).chain(segs)
    except Exception as ex:  # noqa
        E.fail("exception:" + type(ex).__name__)
        return ["exception", type(ex).__name__]
    if len(res) >= 2:
        E.tag("nontrivial")
    for x, y in zip(res, res[1:]):
        too_much, _, _ = overlap_rule(x, y)
        E.check("consecutive-members-do-not-overlap-by-more-than-half-the-shorter", Not(too_much))
    E.check("subset-without-repeats", all(any(s is g for g in segs) for s in res) and len({id(s) for s in res}) == len(res) and len(res) >= 1)
    return [s.tag for s in res]


def configs_real(tier):
    cfgs = [{"n": 2, "rev": False, "mult": "0", "variant": 0}, {"n": 2, "rev": True, "mult": "0", "variant": 0},
            {"n": 2, "rev": True, "mult": "0", "variant": 1, "single": True},
            {"n": 3, "rev": False, "mult": "0", "variant": 0, "single": True},
            {"n": 3, "rev": True, "mult": "0", "variant": 0, "single": True},
            {"n": 3, "rev": True, "mult": "0", "variant": 0, "presorted": True},
            {"n": 3, "rev": False, "mult": "0", "variant": 1, "presorted": True}]
    if tier != "quick":
        cfgs += [{"n": 3, "rev": False, "mult": "0", "variant": 0}, {"n": 3, "rev": True, "mult": "0", "variant": 0},
                 {"n": 4, "rev": False, "mult": "0", "variant": 0, "single": True},
                 {"n": 4, "rev": True, "mult": "0", "variant": 0, "single": True},
                 {"n": 2, "rev": False, "mult": "1", "variant": 0, "single": True},
                 {"n": 2, "rev": True, "mult": "1", "variant": 1, "single": True}]
    return cfgs


def classify_real(cfg, snap, failures, out):
    if cfg["rev"] and not cfg.get("single") and set(failures) == {"consecutive-members-do-not-overlap-by-more-than-half-the-shorter"}:
        return "reverse-strand-query-distance-sign"
    return None


def units(prop):
    fns = ["src.alignment.segment_chainer:SegmentChainer.chain", "src.alignment.segment_chainer:SequentialityScorer.getScore",
           "src.alignment.segments:AlignmentSegment"]
    return [
        Unit(name="chain-dp", body=body_dp, configs=configs_dp, functions=fns[:1] + fns[2:],
             shard_depth=lambda cfg, tier: 12 if cfg["n"] >= 4 else None,
             bounds="0..4 non-empty segments (quick; 3 with symbolic end coordinates = every pre-order, 4 in a fixed pre-order) / up to 5 "
                    "(thorough) plus 0..2 empty segments; segment scores unbounded reals; every ordered pair's join is either minus "
                    "infinity or an unbounded real <= 0 chosen by the solver",
             nontrivial_rule="at least two non-empty segments",
             assumptions=["join scores are <= 0 or minus infinity (decided for the real scorer by unit join-score)",
                          "pre-order keys pairwise distinct where end coordinates are symbolic (tie order is not specified by the statement)"],
             stubs=["SequentialityScorer replaced by an arbitrary admissible scorer (over-approximation of the real one)"],
             outside=["more than 5 segments", "ties in the pre-order key"]),
        Unit(name="join-score", body=body_join, configs=configs_join, functions=fns[1:], classify=classify_join, witness=True,
             timeout_ms=20000,
             bounds="two segments of 1 or 2 pairs with unbounded real end coordinates (ascending inside a segment, no constraint "
                    "between the segments), both strands, both score variants, segmentJoinMultiplier in {1, 1/2} (quick) / "
                    "{0, 1/2, 1, 2} (thorough)",
             nontrivial_rule="every path (a join score is computed on each)",
             assumptions=["exact real arithmetic (the division in the score is not IEEE-rounded)"],
             outside=["symbolic multiplier", "segments with coincident start and end coordinates but two pairs"]),
        Unit(name="chain-real", body=body_real, configs=configs_real, functions=fns, classify=classify_real, timeout_ms=20000,
             shard_depth=lambda cfg, tier: 16 if cfg["n"] >= 3 else None,
             bounds="2 and 3 segments of 1 or 2 pairs with unbounded real end coordinates and scores, both strands, both variants, "
                    "segmentJoinMultiplier 0 (admissibility logic is independent of the multiplier; arbitrary finite join values are "
                    "covered by unit chain-dp); 3 two-pair segments in a given pre-order (quick) / any order (thorough); thorough adds 4 "
                    "single-pair segments and 2 segments with multiplier 1 (non-linear)",
             nontrivial_rule="chain with at least two members",
             assumptions=["segment scores > 0"],
             outside=["more than 4 segments"]),
    ]
