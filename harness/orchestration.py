"""Orchestration harness: the real _WorkflowCoordinator.execute / __align / __getPrimaryCorrelations / __getSecondaryCorrelation /
__getAlignmentRow / __getBestAlignment and the real PeaksSelector, with the environment stubbed:

  * OpticalMap.getInitialAlignment (FFT correlation + scipy find_peaks) returns an object of the real classes with an arbitrary
    number (0..2) of seed peaks of arbitrary symbolic position and score, or the real EmptyInitialAlignment;
  * InitialAlignment.refine (second correlation) returns a real CorrelationResult with 0..2 peaks of symbolic position;
  * the coordinator's aligner is replaced by one that returns a row with a fresh symbolic Confidence and, by the solver's
    choice, with or without pairs (the real aligner is covered by Level 1);
  * p_imap is replaced by the ordered builtin map (library contract: results in input order).
"""
import numpy as np

from symx import And, Or, Not, Implies
from symx.runner import Unit

import src.workflow_coordinator as wc
from harness.pipeline import make_args
from src.alignment.alignment_position import AlignedPair, ScoredAlignedPair
from src.alignment.alignment_results import AlignmentResultRow
from src.alignment.segments import AlignmentSegment
from src.correlation.optical_map import OpticalMap, InitialAlignment, EmptyInitialAlignment, CorrelationResult, PositionWithSiteId
from src.correlation.peak import Peak
from src.extensions.dispatcher import Dispatcher
from src.extensions.extension import Extension
from src.extensions.messages import AlignmentResultRowMessage, MultipleAlignmentResultRowsMessage
from src.workflow_coordinator_factory import WorkflowCoordinatorFactory


PMAP_NAMES = ("p_imap", "p_map", "p_uimap", "p_umap")


class World:
    def __init__(self, E, cfg):
        self.E = E
        self.cfg = cfg
        self.initial = {}      # (qid, rid, strand) -> InitialAlignment
        self.refined = {}      # (qid, rid, strand, seed index) -> CorrelationResult
        self.rows = {}         # same key -> row
        self.calls = []        # aligner calls in order: (qid, key)
        self.seeds = {}        # (qid, rid, strand) -> list of Peak
        self.messages = []


def install(world):
    E, cfg = world.E, world.cfg
    saved = (OpticalMap.getInitialAlignment, InitialAlignment.refine, {n: getattr(wc, n) for n in PMAP_NAMES if hasattr(wc, n)})

    def fake_initial(self, reference, gen, minPeakDistance, peaksCount, reverseStrand=False):
        key = (self.moleculeId, reference.moleculeId, bool(reverseStrand))
        if key not in world.initial:
            kind = E.choose(cfg["initial_kinds"], f"initial-alignment-{key}")
            if kind == "empty":
                ia = EmptyInitialAlignment(self, reference, gen.resolution, gen.blurRadius)
                peaks = []
            else:
                peaks = []
                for i in range(kind):
                    sc = E.real(f"seedscore_{key[0]}_{key[1]}_{int(key[2])}_{i}")
                    peaks.append(Peak(E.real(f"seedpos_{key[0]}_{key[1]}_{int(key[2])}_{i}"), 1., 0, 0, sc))
                ia = InitialAlignment(np.array([]), self, reference, peaks, reverseStrand, 0., gen.resolution, gen.blurRadius)
            world.initial[key] = ia
            world.seeds[key] = peaks
        return world.initial[key]

    def fake_refine(self, peakPosition, gen, margin=8000, thr=15.):
        key0 = (self.query.moleculeId, self.reference.moleculeId, bool(self.reverseStrand))
        idx = [i for i, p in enumerate(world.seeds.get(key0, [])) if p.position is peakPosition]
        key = key0 + (idx[0] if idx else -1,)
        if key not in world.refined:
            n = E.choose(cfg["refined_peaks"], f"refined-peaks-{key}")
            peaks = [Peak(E.real(f"refinedpos_{key[0]}_{key[1]}_{int(key[2])}_{key[3]}_{i}"), 30.) for i in range(n)]
            world.refined[key] = CorrelationResult(np.array([]), self.query, self.reference, peaks, self.reverseStrand, thr,
                                                   gen.resolution, gen.blurRadius)
            world.refined[key].seedkey = key
        return world.refined[key]

    OpticalMap.getInitialAlignment = fake_initial
    InitialAlignment.refine = fake_refine
    # library contract of p_tqdm: p_map / p_imap return results in input order, p_umap / p_uimap in completion order.
    # Ordered variants are modelled by the builtin map, unordered ones by an adversarial (reversed) completion order.
    for n in saved[2]:
        if n in ("p_umap", "p_uimap"):
            setattr(wc, n, lambda f, items, **kw: list(map(f, items))[::-1])
        else:
            setattr(wc, n, lambda f, items, **kw: list(map(f, items)))
    return saved


def uninstall(saved):
    OpticalMap.getInitialAlignment, InitialAlignment.refine = saved[0], saved[1]
    for n, v in saved[2].items():
        setattr(wc, n, v)


class StubAligner:
    def __init__(self, world):
        self.world = world

    def align(self, reference, query, peaks, isReverse=False):
        w = self.world
        E = w.E
        key = None
        for k, cr in w.refined.items():
            if cr.peaks is peaks:
                key = k
        if key not in w.rows:
            conf = E.real(f"confidence_{key[0]}_{key[1]}_{int(key[2])}_{key[3]}") if key else E.real("confidence_unknown")
            has_pairs = bool(peaks) and E.choose(w.cfg["row_has_pairs"], f"row-has-pairs-{key}")
            if has_pairs:
                p = ScoredAlignedPair(AlignedPair(PositionWithSiteId(1, reference.positions[0]), PositionWithSiteId(1, 0), 0, 1), conf)
                seg = AlignmentSegment([p], conf, peaks[0], [p])
                row = AlignmentResultRow([seg], query.moleculeId, reference.moleculeId, query.length, reference.length,
                                         0, 0, reference.positions[0], reference.positions[0], isReverse, conf)
            else:
                # shape of what the real Aligner.align returns when no segment qualifies: one placeholder empty segment for a non-empty
                # peak list (truthy `segments`, no pairs), no segment at all for an empty peak list
                placeholder = [AlignmentSegment.create([], peaks[0], [])] if peaks else []
                row = AlignmentResultRow(placeholder, query.moleculeId, reference.moleculeId, query.length, reference.length, 0, 0, 0, 0,
                                         isReverse, conf if peaks else 0.)
            w.rows[key] = row
        w.calls.append((query.moleculeId, key))
        return w.rows[key]


class Catcher(Extension):
    messageType = MultipleAlignmentResultRowsMessage

    def __init__(self, world):
        self.world = world

    def handle(self, message):
        self.world.messages.append(message)


def make_world(E, cfg):
    world = World(E, cfg)
    nrefs, nq = cfg["nrefs"], cfg["nq"]
    refs = []
    for k in range(nrefs):
        p = E.real(f"ref{k}_label")
        refs.append(OpticalMap(k + 1, p + 10, [p]))
    queries = [OpticalMap(7 + k, E.real(f"qry{k}_length"), [0]) for k in range(nq)]
    peaksCount = cfg["peaksCount"]
    args = make_args(outputMode="single", peaksCount=peaksCount)
    coord = WorkflowCoordinatorFactory(args, Dispatcher([Catcher(world)]), None).create()
    coord.aligner = StubAligner(world)
    world.coord, world.refs, world.queries, world.peaksCount = coord, refs, queries, peaksCount
    return world


def run_execute(world, queries=None, refs=None):
    saved = install(world)
    try:
        return world.coord.execute(refs if refs is not None else world.refs, queries if queries is not None else world.queries), None
    except Exception as ex:  # noqa
        return None, ex
    finally:
        uninstall(saved)


def run_align(world, query):
    saved = install(world)
    try:
        return world.coord._WorkflowCoordinator__align(world.refs, query), None
    except Exception as ex:  # noqa
        return None, ex
    finally:
        uninstall(saved)


def all_seeds(world, qid, refs=None):
    """seeds the coordinator sees for a query, in the order it sees them"""
    out = []
    for r in (refs if refs is not None else world.refs):
        for strand in (False, True):
            key = (qid, r.moleculeId, strand)
            for i, p in enumerate(world.seeds.get(key, [])):
                out.append((key + (i,), p))
    return out


ORCH_FUNCTIONS = ["src.workflow_coordinator:_WorkflowCoordinator", "src.correlation.peaks_selector:PeaksSelector.selectPeaks",
                  "src.workflow_coordinator_factory:WorkflowCoordinatorFactory.create"]
ORCH_STUBS = ["p_tqdm maps: ordered variants (p_imap/p_map) -> builtin map; unordered variants (p_uimap/p_umap), if the code uses them, -> reversed completion order",
              "OpticalMap.getInitialAlignment -> arbitrary 0..2 seeds or the real EmptyInitialAlignment (scipy/FFT not executed)",
              "InitialAlignment.refine -> real CorrelationResult with 0..2 arbitrary peaks", "aligner -> row with fresh symbolic Confidence, with or "
              "without pairs (solver's choice)"]


def orch_configs(tier):
    base = dict(initial_kinds=["empty", 0, 1, 2], refined_peaks=[0, 1], row_has_pairs=[True, False])
    cfgs = [dict(base, nrefs=1, nq=1, peaksCount=k) for k in (1, 2, 3)]
    cfgs.append(dict(base, nrefs=2, nq=1, peaksCount=2, initial_kinds=["empty", 1]))
    cfgs.append(dict(base, nrefs=1, nq=2, peaksCount=1, initial_kinds=["empty", 0, 1], row_has_pairs=[True]))
    if tier != "quick":
        cfgs.append(dict(base, nrefs=2, nq=1, peaksCount=3, initial_kinds=["empty", 0, 1, 2], refined_peaks=[1]))
        cfgs.append(dict(base, nrefs=2, nq=2, peaksCount=2, initial_kinds=["empty", 1], refined_peaks=[0, 1]))
        cfgs.append(dict(base, nrefs=1, nq=1, peaksCount=0))
    return cfgs
