"""C07 -- well-formed input never aborts the run; unalignable queries just yield no record.

Units
  orchestration        real _WorkflowCoordinator.execute/__align with the scipy entry points and the aligner stubbed: no path raises;
                       a query without seeds yields no row and does not change the rows of the other query.
  level1-degenerate    whole real Aligner.align on degenerate maps (0/1/2 labels, coincident labels, seeds anywhere): no path raises.
  multipass-modes      real mode logic, getUnalignedFragments, resolve, filterOut in the four modes: no path raises.
  write-read           real XmapReader.writeAlignments on 0..2 symbolic rows (markers through real pandas to_csv); the text is
                       well formed and, with the path's witness values substituted, the real readAlignments reads it back.
  cli                  concrete end-to-end replays of the degenerate input classes through Program(Args.parse(...)).run()
                       and XmapReader.readAlignments on every file written (public-API confirmation; not solver-decided).
"""
import io
import os
import shutil
import tempfile

from symx import And, Or, Not, Implies
from symx.runner import Unit

from harness import multipass, orchestration as orch, pipeline
from harness.pipeline import make_args
from src.alignment.alignment_results import AlignmentResults
from src.parsers.xmap_reader import XmapReader


# ------------------------------------------------------------------------------------------------ orchestration

def body_orch(E, cfg):
    world = orch.make_world(E, cfg)
    rows, exc = orch.run_execute(world)
    if exc is not None:
        E.fail("exception:" + type(exc).__name__)
        return ["exception", type(exc).__name__]
    E.tag("nontrivial")
    ids = [r.queryId for r in rows]
    for q in world.queries:
        seeds = orch.all_seeds(world, q.moleculeId)
        if not seeds:
            E.tag("query-without-seeds")
            E.check("query-without-seeds-yields-no-record", q.moleculeId not in ids)
    E.check("records-only-with-pairs-and-at-most-one-per-query", all(r.alignedPairs for r in rows) and len(set(ids)) == len(ids))
    if len(world.queries) == 2:
        # the other query's record is what a run on that query alone gives
        for q in world.queries:
            alone, exc2 = orch.run_execute(world, queries=[q])
            if exc2 is not None:
                E.fail("exception:" + type(exc2).__name__)
                continue
            mine = [r for r in rows if r.queryId == q.moleculeId]
            E.check("a-query's-record-does-not-depend-on-the-other-query",
                    len(mine) == len(alone) and all(a is b for a, b in zip(mine, alone)))
    return [[(r.queryId, r.referenceId, r.orientation) for r in rows]]


def classify_orch(cfg, snap, failures, out):
    return None


# ------------------------------------------------------------------------------------------------ level 1, degenerate maps

def body_level1(E, cfg):
    ctx = pipeline.run_level1(E, cfg)
    E.tag("nontrivial")
    if ctx["exc"] is not None:
        E.fail("exception:" + type(ctx["exc"]).__name__)
    else:
        E.check("returns-a-row", ctx["row"] is not None)
    return pipeline.summary(ctx)


def level1_configs(tier):
    cfgs = []
    sizes = [(0, 0), (0, 1), (1, 0), (1, 1), (2, 1), (1, 2), (2, 2)] if tier == "quick" else \
        [(0, 0), (0, 2), (2, 0), (1, 1), (2, 1), (1, 2), (2, 2), (3, 2), (2, 3)]
    for KR, KQ in sizes:
        for rev in (False, True):
            cfgs.append(dict(KR=KR, KQ=KQ, NP=1, rev=rev, coincident=True))
    cfgs.append(dict(KR=1, KQ=1, NP=0, rev=False, as_list=True))
    cfgs.append(dict(KR=2, KQ=1, NP=2, rev=False, coincident=True, seed_order="asc", ss=1))
    cfgs.append(dict(KR=2, KQ=1, NP=2, rev=False, coincident=True, seed_order="asc"))
    cfgs.append(dict(KR=2, KQ=2, NP=2, rev=True, coincident=True, seed_order="asc") if tier != "quick" else
                dict(KR=1, KQ=2, NP=2, rev=True, coincident=True, seed_order="asc"))
    return cfgs


# ------------------------------------------------------------------------------------------------ writer / reader

def body_write_read(E, cfg):
    nrows = cfg["nrows"]
    world = multipass.build_world(E, dict(KR=4, KQ=4, nq=max(nrows, 1), nrefs=1, first=["start+"]))
    rows = []
    for k in range(nrows):
        qm = world["queries"][k]
        rev = cfg["revs"][k]
        row = multipass.mkrow(E, world["refs"][0], qm, rev, [1, 2, 4], [4, 3, 1] if rev else [1, 2, 4], f"w{k}", world["su"])
        rows.append(row)
    args = make_args(outputMode="best")
    out = io.StringIO()
    try:
        XmapReader().writeAlignments(out, AlignmentResults("r.cmap", "q.cmap", rows), args)
    except Exception as ex:  # noqa
        E.fail("exception-in-writer:" + type(ex).__name__)
        return ["exception", type(ex).__name__]
    text = out.getvalue()
    E.tag("nontrivial")
    lines = text.split("\n")
    header = [l for l in lines if l.startswith("#")]
    records = [l for l in lines if l and not l.startswith("#")]
    E.check("header-has-column-line-and-type-line", any(l.startswith("#h ") or l.startswith("#h\t") for l in header) and len(header) == 7)
    E.check("one-record-line-per-row-with-15-columns", len(records) == nrows and all(len(l.split("\t")) == 15 for l in records)
            and text.endswith("\n"))
    concrete = E.concretize(text) if E.symbolic else text
    try:
        back = XmapReader().readAlignments(io.StringIO(concrete))
        E.check("reader-returns-one-alignment-per-record", len(back) == nrows)
    except Exception as ex:  # noqa
        E.fail("written-file-cannot-be-read-back:" + type(ex).__name__)
    return [nrows, len(records)]


def classify_wr(cfg, snap, failures, out):
    if cfg["nrows"] == 0 and failures and all(f.startswith("written-file-cannot-be-read-back") for f in failures):
        return "zero-record-file-unreadable"
    return None


# ------------------------------------------------------------------------------------------------ concrete CLI scenarios

def _cmap(path, maps):
    with open(path, "w") as f:
        f.write("# CMAP File Version:\t0.1\n# Label Channels:\t1\n# Number of Consensus Maps:\t%d\n" % len(maps))
        f.write("#h CMapId\tContigLength\tNumSites\tSiteID\tLabelChannel\tPosition\tStdDev\tCoverage\tOccurrence\n")
        f.write("#f int\tfloat\tint\tint\tint\tfloat\tfloat\tfloat\tfloat\n")
        for mid, (length, pos) in maps.items():
            for i, p in enumerate(pos):
                f.write(f"{mid}\t{length:.1f}\t{len(pos)}\t{i + 1}\t1\t{p:.1f}\t0.0\t1.0\t1.0\n")
            f.write(f"{mid}\t{length:.1f}\t{len(pos)}\t{len(pos) + 1}\t0\t{length:.1f}\t0.0\t1.0\t1.0\n")


def _reference(seed, n=60):
    x, pos, p = (seed * 2654435761 + 12345) % (2 ** 31), [], 5000
    for _ in range(n):
        x = (1103515245 * x + 12345) % (2 ** 31)
        p += 2500 + x % 14000
        pos.append(float(p))
    return pos


SCENARIOS = ["reference-label-desert", "query-longer-than-every-reference", "one-label-query", "two-label-query", "one-label-reference", "duplicate-positions",
             "alignable-plus-unalignable", "alignable-only", "no-queries-align"]


def _scenario_maps(name, seed):
    ref = _reference(seed)
    rl = ref[-1] + 5000
    good = [p - ref[20] + 700 for p in ref[20:38]]
    if name == "query-longer-than-every-reference":
        return {1: (rl, ref)}, {7: (rl + 100000, [0.0, 5000.0, rl + 50000])}
    if name == "one-label-query":
        return {1: (rl, ref)}, {7: (5000.0, [2500.0])}
    if name == "two-label-query":
        return {1: (rl, ref)}, {7: (20000.0, [2500.0, 12000.0])}
    if name == "one-label-reference":
        return {1: (400000.0, [200000.0])}, {7: (good[-1] + 900, good)}
    if name == "reference-label-desert":    # the only reference label lies before the query's span: refine windows hold no label
        return {1: (400000.0, [5000.0])}, {7: (good[-1] + 900, good)}
    if name == "duplicate-positions":
        return {1: (rl, ref[:30] + [ref[29]] + ref[30:])}, {7: (good[-1] + 900, good[:5] + [good[4]] + good[5:])}
    if name == "alignable-plus-unalignable":
        return {1: (rl, ref)}, {7: (good[-1] + 900, good), 9: (rl + 100000, [0.0, 5000.0, rl + 50000])}
    if name == "alignable-only":
        return {1: (rl, ref)}, {7: (good[-1] + 900, good)}
    if name == "no-queries-align":
        return {1: (rl, ref), 2: (50000.0, [1000.0, 30000.0])}, {7: (rl + 100000, [0.0, rl]), 8: (rl + 1, [5.0])}
    raise KeyError(name)


def run_cli(name, mode, seed, out_name="o.xmap"):
    """returns (exception or None, {file: number of records}, read-back errors, rows)"""
    from src.args import Args
    from src.program import Program
    d = tempfile.mkdtemp(prefix="coma_c07_")
    try:
        refs, qrys = _scenario_maps(name, seed)
        _cmap(os.path.join(d, "r.cmap"), refs)
        _cmap(os.path.join(d, "q.cmap"), qrys)
        out = os.path.join(d, out_name)
        argv = ["-r", os.path.join(d, "r.cmap"), "-q", os.path.join(d, "q.cmap"), "-o", out, "-pb", "-c", "1"]
        if mode != "default":
            argv += ["-oM", mode]
        rows = None
        try:
            args = Args.parse(argv)
            if mode == "single":
                args = args._replace(outputMode="single") if hasattr(args, "_replace") else args
            res = Program(args).run()
            rows = [(r.queryId, r.referenceId, r.orientation, tuple((p.reference.siteId, p.query.siteId) for p in r.alignedPairs))
                    for r in res.rows]
        except BaseException as ex:  # noqa  (SystemExit from argparse included)
            return ex, {}, [], None
        files, errors = {}, []
        for fn in sorted(os.listdir(d)):
            if fn.endswith(".xmap") or fn.startswith(out_name.split(".")[0]) and not fn.endswith(".cmap"):
                text = open(os.path.join(d, fn)).read()
                recs = [l for l in text.split("\n") if l and not l.startswith("#")]
                files[fn] = len(recs)
                if not any(l.startswith("#h") for l in text.split("\n")):
                    errors.append(f"{fn}: no column header line")
                try:
                    back = XmapReader().readAlignments(open(os.path.join(d, fn)))
                    if len(back) != len(recs):
                        errors.append(f"{fn}: reader returned {len(back)} alignments for {len(recs)} records")
                except Exception as ex:  # noqa
                    errors.append(f"{fn}: read-back {type(ex).__name__}")
        return None, files, errors, rows
    finally:
        shutil.rmtree(d, ignore_errors=True)


def body_cli(E, cfg):
    name = E.choose(cfg["scenarios"], "scenario")
    mode = E.choose(cfg["modes"], "output-mode")
    seed = cfg["seed"]
    exc, files, errors, rows = run_cli(name, mode, seed, cfg.get("out_name", "o.xmap"))
    E.tag("nontrivial")
    if exc is not None:
        E.fail(f"cli-run-aborts:{type(exc).__name__}")
        return [name, mode, "exception", type(exc).__name__]
    for e in errors:
        E.fail("written-file-cannot-be-read-back" if "read-back" in e else "file-malformed")
    if name in ("alignable-plus-unalignable",):
        exc2, files2, errors2, rows2 = run_cli("alignable-only", mode, seed, cfg.get("out_name", "o.xmap"))
        E.check("unalignable-query-does-not-affect-the-others", exc2 is None and rows == rows2)
    E.check("unalignable-queries-yield-no-record", not any(r[0] in (9,) for r in (rows or [])))
    return [name, mode, files, rows]


def classify_cli(cfg, snap, failures, out):
    name = out[0] if out else None
    if failures and all(f.startswith("cli-run-aborts:ValueError") for f in failures) and name in (
            "query-longer-than-every-reference", "alignable-plus-unalignable", "no-queries-align"):
        return "no-seed-query-aborts-run"
    return None


def cli_configs(tier):
    seed = int(os.environ.get("VERIF_SEED", "0") or 0)
    if tier == "quick":
        return [dict(scenarios=SCENARIOS, modes=["default"], seed=seed),
                dict(scenarios=["alignable-plus-unalignable", "no-queries-align"], modes=["separate", "joined", "all"], seed=seed),
                dict(scenarios=["alignable-only"], modes=["default", "separate", "all"], seed=seed, out_name="alignments")]
    return [dict(scenarios=SCENARIOS, modes=["default", "best", "separate", "joined", "all"], seed=seed),
            dict(scenarios=SCENARIOS, modes=["default", "all"], seed=seed + 1),
            dict(scenarios=["alignable-only", "no-queries-align"], modes=["default", "separate", "joined", "all"], seed=seed, out_name="alignments")]


def units(prop):
    return [
        Unit(name="orchestration", body=body_orch, configs=orch.orch_configs, functions=orch.ORCH_FUNCTIONS, stubs=orch.ORCH_STUBS,
             classify=classify_orch,
             bounds="1-2 queries, 1-2 references x 2 strands, per (query, reference, strand) either the real EmptyInitialAlignment or 0..2 seeds; "
                    "0..1 refined peaks; candidate rows with or without pairs; peaksCount 1..3",
             nontrivial_rule="every path that returns", outside=["exceptions raised inside scipy/pandas themselves"]),
        Unit(name="level1-degenerate", body=body_level1, configs=level1_configs, functions=pipeline.LEVEL1_FUNCTIONS,
             shard_depth=lambda cfg, tier: 20 if cfg["NP"] * cfg["KR"] * cfg["KQ"] >= 4 else None,
             bounds="whole Aligner.align on 0..2 x 0..2 labels (thorough up to 3 x 2) with coincident labels allowed, 0, 1 and 2 seeds, both "
                    "strands, all scoring parameters symbolic",
             nontrivial_rule="every path", outside=["larger maps"]),
        multipass.multipass_unit(prop),
        Unit(name="write-read", body=body_write_read, classify=classify_wr,
             configs=lambda tier: [dict(nrows=0, revs=[]), dict(nrows=1, revs=[False]), dict(nrows=1, revs=[True]),
                                   dict(nrows=2, revs=[False, True])],
             functions=["src.parsers.xmap_reader:XmapReader.writeAlignments", "src.parsers.xmap_reader:XmapReader.readAlignments",
                        "src.parsers.bionano_file_reader:BionanoFileReader.readFile"],
             bounds="0, 1 and 2 records (both strands) with symbolic coordinates, scores and lengths",
             nontrivial_rule="every path",
             stubs=["numbers are rendered as marker tokens through the real pandas writer; the reader is run on the text with the path's "
                    "witness values substituted (pandas cannot parse symbolic cells)"],
             outside=["the reader's behaviour on values other than the witness"], witness=False),
        Unit(name="cli", body=body_cli, configs=cli_configs, classify=classify_cli, witness=False,
             functions=["src.program:Program", "src.args:Args.parse", "src.parsers.cmap_reader:CmapReader",
                        "src.workflow_coordinator:_WorkflowCoordinator", "src.parsers.xmap_reader:XmapReader"],
             bounds="concrete degenerate input classes (query longer than every reference, 1- and 2-label queries, 1-label reference, "
                    "duplicate positions, alignable + unalignable query, nothing aligns) through the real CLI entry in the default mode and, for "
                    "the multi-query classes, separate/joined/all (thorough: all classes x all modes, two seeds)",
             nontrivial_rule="every scenario",
             assumptions=["concrete public-API replays: they confirm, not decide"],
             outside=["inputs other than the listed classes"]),
    ]
