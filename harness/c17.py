"""C17 (trim half only) -- OpticalMap.trim keeps geometry.  The CMAP reader half (pandas read_csv/groupby/isin/sort_values)
cannot hold symbolic values and is outside the claim (DESIGN sections 5 and 6)."""
from symx import And
from symx.runner import Unit

from src.correlation.optical_map import OpticalMap


def body(E, cfg):
    n = cfg["n"]
    pos = []
    for i in range(n):
        v = E.real(f"label{i}")
        if i:
            E.assume(v >= pos[-1])
        pos.append(v)
    length = E.real("length")
    m = OpticalMap(5, length, list(pos), shift=cfg.get("shift", 0))
    try:
        t = m.trim()
        t2 = t.trim()
    except Exception as ex:  # noqa
        E.fail("exception:" + type(ex).__name__)
        return ["exception", type(ex).__name__]
    if n >= 2:
        E.tag("nontrivial")
    E.check("molecule-id-kept", t.moleculeId == 5)
    E.check("number-of-labels-kept", len(t.positions) == n)
    if len(t.positions) != n:
        return [len(t.positions)]
    if n == 0:
        E.check("empty-map-unchanged", And(t.length == length, t.positions == []))
        return [[], t.length]
    E.check("first-label-at-0", t.positions[0] == 0)
    E.check("inter-label-distances-kept", And([t.positions[i + 1] - t.positions[i] == pos[i + 1] - pos[i] for i in range(n - 1)]))
    E.check("every-label-shifted-by-the-first", And([t.positions[i] == pos[i] - pos[0] for i in range(n)]))
    E.check("length-is-last-minus-first-plus-1", t.length == pos[-1] - pos[0] + 1)
    E.check("idempotent", And([t2.length == t.length, len(t2.positions) == n] + [a == b for a, b in zip(t2.positions, t.positions)]))
    E.check("input-map-not-modified", And([a == b for a, b in zip(m.positions, pos)] + [m.length == length]))
    return [list(t.positions), t.length]


def units(prop):
    return [Unit(name="OpticalMap.trim", body=body,
                 configs=lambda tier: [{"n": k} for k in range(0, (6 if tier == "quick" else 13))],
                 functions=["src.correlation.optical_map:OpticalMap.trim"],
                 bounds="maps of 0..5 (quick) / 0..8 (thorough) labels in non-decreasing order, symbolic real coordinates and length",
                 nontrivial_rule="at least two labels",
                 assumptions=["labels in non-decreasing order (the reader sorts them)", "exact real arithmetic"],
                 outside=["the CMAP reader (pandas): not decided by this check", "more than 8 labels"]),
            Unit(name="cmap-reader-on-witnesses", body=body_reader, witness=False,
                 configs=lambda tier: [dict(n1=a, n2=b) for a, b in ((1, 0), (2, 1), (3, 2))] + [dict(n1=3, n2=2, coincident=True)] +
                                      ([dict(n1=4, n2=3), dict(n1=6, n2=5), dict(n1=5, n2=1, coincident=True)] if tier != "quick" else []),
                 functions=["src.parsers.cmap_reader:CmapReader", "src.parsers.bionano_file_reader:BionanoFileReader.readFile"],
                 bounds="NOT solver-decided: one witness per path (three molecules: ids 5, 2 and a label-less 9) rendered as CMAP text in canonical, "
                        "reversed and interleaved row order, with and without an extra column, read with and without id filters by the real reader",
                 nontrivial_rule="every path",
                 assumptions=["sampled public-API confirmation: the reader's behaviour on other values is not covered"],
                 outside=["everything about the reader beyond the sampled witnesses"])]


# ------------------------------------------------------------------------------------------------ reader on path witnesses
# NOT solver-decided: pandas cannot hold symbolic values.  For every path of a small symbolic scenario the solver's witness is
# rendered as CMAP text (canonical, reversed and interleaved row orders, an extra column, a label-less molecule) and read by the
# real CmapReader; the result is compared with the maps the text describes.  Public-API confirmation only (sampled values).

import io
import os


def _cmap_text(mols, order, extra_column):
    rows = []
    for mid, (length, labels) in mols.items():
        n = len(labels)
        for i, p in enumerate(labels):
            rows.append((mid, length, n, i + 1, 1, p))
        rows.append((mid, length, n, n + 1, 0, length))
    if order == "reversed":
        rows = rows[::-1]
    elif order == "interleaved":
        rows = rows[::2] + rows[1::2]
    head = "# CMAP File Version:\t0.1\n# Label Channels:\t1\n"
    cols = ["CMapId", "ContigLength", "NumSites", "SiteID", "LabelChannel", "Position", "StdDev", "Coverage", "Occurrence"]
    if extra_column:
        cols.insert(3, "Extra")
    out = head + "#h " + "\t".join(cols) + "\n#f " + "\t".join("float" for _ in cols) + "\n"
    for mid, length, n, site, ch, p in rows:
        vals = [str(mid), f"{length:.1f}", str(n), str(site), str(ch), f"{p:.1f}", "0.0", "1.0", "1.0"]
        if extra_column:
            vals.insert(3, "x")
        out += "\t".join(vals) + "\n"
    return out


def body_reader(E, cfg):
    from src.parsers.cmap_reader import CmapReader
    n1, n2 = cfg["n1"], cfg["n2"]
    mols_sym = {}
    for mid, n in ((5, n1), (2, n2), (9, 0)):
        labels = []
        for i in range(n):
            v = E.real(f"m{mid}_label{i}")
            if cfg.get("coincident") and i == 1:
                E.assume(v == labels[-1])         # two label rows at exactly the same coordinate
            else:
                E.assume(v >= 0 if i == 0 else v > labels[-1] + 1)
            labels.append(v)
        length = E.real(f"m{mid}_length")
        E.assume(length >= (labels[-1] if labels else 0) + 1)
        mols_sym[mid] = (length, labels)
    mols = {mid: (float(E.model_value(l)), [float(E.model_value(x)) for x in ls]) for mid, (l, ls) in mols_sym.items()}
    E.tag("nontrivial")
    expected = {mid: (int(float(f"{l:.1f}")), sorted(float(f"{x:.1f}") for x in ls)) for mid, (l, ls) in mols.items() if ls}
    for order in ("canonical", "reversed", "interleaved"):
        for extra in (False, True):
            text = _cmap_text(mols, order, extra)
            for ids in (None, [5], [2, 9], [5, 2]):
                try:
                    got = CmapReader().readQueries(io.StringIO(text), ids)
                except Exception as ex:  # noqa
                    E.fail(f"reader-raises:{type(ex).__name__}")
                    continue
                want = {k: v for k, v in expected.items() if ids is None or k in ids}
                have = {int(m.moleculeId): (m.length, list(m.positions)) for m in got}
                if len(got) != len(have) or have != want:
                    E.fail(f"reader-returns-every-labelled-molecule-exactly:{order}{'-extra-column' if extra else ''}-{'all' if ids is None else 'filtered'}")
    E.check("checked", True)
    return [sorted(expected)]
