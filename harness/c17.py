"""C17 (trim half only) -- OpticalMap.trim keeps geometry.  The CMAP reader half (pandas read_csv/groupby/isin/sort_values)
cannot hold symbolic values and is outside the claim (DESIGN sections 5 and 6)."""
from symx import And
from symx.runner import Unit

from src.correlation.optical_map import OpticalMap


def body(E, cfg):
    n = cfg["n"]
    pos = []
    for i in range(n):
        v = E.real(f"label{i}")
        if i:
            E.assume(v >= pos[-1])
        pos.append(v)
    length = E.real("length")
    m = OpticalMap(5, length, list(pos), shift=cfg.get("shift", 0))
    try:
        t = m.trim()
        t2 = t.trim()
    except Exception as ex:  # noqa
        E.fail("exception:" + type(ex).__name__)
        return ["exception", type(ex).__name__]
    if n >= 2:
        E.tag("nontrivial")
    E.check("molecule-id-kept", t.moleculeId == 5)
    E.check("number-of-labels-kept", len(t.positions) == n)
    if len(t.positions) != n:
        return [len(t.positions)]
    if n == 0:
        E.check("empty-map-unchanged", And(t.length == length, t.positions == []))
        return [[], t.length]
    E.check("first-label-at-0", t.positions[0] == 0)
    E.check("inter-label-distances-kept", And([t.positions[i + 1] - t.positions[i] == pos[i + 1] - pos[i] for i in range(n - 1)]))
    E.check("every-label-shifted-by-the-first", And([t.positions[i] == pos[i] - pos[0] for i in range(n)]))
    E.check("length-is-last-minus-first-plus-1", t.length == pos[-1] - pos[0] + 1)
    E.check("idempotent", And([t2.length == t.length, len(t2.positions) == n] + [a == b for a, b in zip(t2.positions, t.positions)]))
    E.check("input-map-not-modified", And([a == b for a, b in zip(m.positions, pos)] + [m.length == length]))
    return [list(t.positions), t.length]


def units(prop):
    return [Unit(name="OpticalMap.trim", body=body,
                 configs=lambda tier: [{"n": k} for k in range(0, (6 if tier == "quick" else 9))],
                 functions=["src.correlation.optical_map:OpticalMap.trim"],
                 bounds="maps of 0..5 (quick) / 0..8 (thorough) labels in non-decreasing order, symbolic real coordinates and length",
                 nontrivial_rule="at least two labels",
                 assumptions=["labels in non-decreasing order (the reader sorts them)", "exact real arithmetic"],
                 outside=["the CMAP reader (pandas): not decided by this check", "more than 8 labels"])]
