"""C16 -- vectorisation, blur and bin-to-bp mapping are exact; seeds are the top peaks.

Units: vectorisePositions, blur, toRelativeGenomicPositions, PeaksSelector.selectPeaks, CorrelationResult.createPeaks
(all real code; numpy object arrays carry the symbolic numbers where the code uses arrays).
"""
import types
from math import ceil

import numpy as np

from symx import And, Or, Not, Implies, Iff
from symx.runner import Unit

from src.correlation.vectorise import vectorisePositions, blur
from src.correlation.optical_map import toRelativeGenomicPositions, CorrelationResult, OpticalMap
from src.correlation.sequence_generator import SequenceGenerator
from src.correlation.peaks_selector import PeaksSelector
from src.correlation.peak import Peak

MAXBINS = 8


def body_vectorise(E, cfg):
    n, res, with_end = cfg["n"], cfg["res"], cfg["end"]
    pos = []
    for i in range(n):
        v = E.real(f"label{i}")
        if i:
            E.assume(v >= pos[-1])
        pos.append(v)
    start = E.real("start")
    E.assume(pos[-1] < start + MAXBINS * res)
    if with_end:
        end = E.real("end")
        E.assume(end < start + MAXBINS * res)
    else:
        end = None
    try:
        bits = list(vectorisePositions(list(pos), res, start, end))
    except Exception as ex:  # noqa
        E.fail("exception:" + type(ex).__name__)
        return ["exception", type(ex).__name__]
    m = len(bits)
    E.check("bits-are-0-or-1", all(b in (0, 1) for b in bits))
    if m:
        E.tag("nontrivial")
    E.check("bit-set-iff-a-label-lies-in-the-bin", And([
        Iff(bits[i] == 1, Or([And(p >= start + i * res, p < start + (i + 1) * res) for p in pos])) for i in range(m)]))
    # every label between start and end has its bin inside the vector
    if end is None:
        eff = pos[-1]
        covered = And([Implies(And(p >= start, p <= eff), p < start + m * res) for p in pos])
    else:
        # `end or positions[-1]`: an end of exactly 0 means "not given" (Python truthiness); both readings must be covered
        covered = And([Implies(And(p >= start, Or(And(Not(end == 0), p <= end), And(end == 0, p <= pos[-1]))), p < start + m * res) for p in pos])
    E.check("every-label-between-start-and-end-is-inside-the-vector", covered)
    return [bits]


def configs_vectorise(tier):
    cfgs = []
    for n in ((1, 2, 3) if tier == "quick" else (1, 2, 3, 4, 5)):
        for res in ((1, 100) if tier == "quick" else (1, 3, 100, 1400)):
            for end in (False, True):
                cfgs.append({"n": n, "res": res, "end": end})
    return cfgs


def body_blur(E, cfg):
    n, radius = cfg["n"], cfg["radius"]
    bits = []
    for i in range(n):
        b = E.int(f"bit{i}")
        E.assume(b >= 0)
        E.assume(b <= 1)
        bits.append(b)
    try:
        out = blur(list(bits), radius)
    except Exception as ex:  # noqa
        E.fail("exception:" + type(ex).__name__)
        return ["exception", type(ex).__name__]
    out = list(out)
    E.tag("nontrivial")
    E.check("length-kept", len(out) == n)
    if len(out) != n:
        return [[int(x) for x in out]]
    E.check("bit-set-iff-an-original-bit-within-radius", And([
        Iff(int(out[i]) == 1, Or([bits[j] == 1 for j in range(n) if abs(i - j) <= radius])) for i in range(n)]))
    E.check("bits-are-0-or-1", all(int(x) in (0, 1) for x in out))
    return [[int(x) for x in out]]


def configs_blur(tier):
    top = 6 if tier == "quick" else 10
    return [{"n": n, "radius": r} for n in ((0, 1, 3, top) if tier == "quick" else (0, 1, 2, 3, 5, 8, top)) for r in (0, 1, 2, 3, 4, 6)]


def body_window(E, cfg):
    """the refinement window as InitialAlignment.refine builds and decodes it: the real OpticalMap.getSequence(generator, False, start, end)
    composed with the real toRelativeGenomicPositions(bin, resolution, start) -- two sites that must agree on the window origin"""
    n, res, radius = cfg["n"], cfg["res"], cfg["radius"]
    pos = []
    for i in range(n):
        v = E.real(f"label{i}")
        E.assume(v >= (pos[-1] if i else 0))
        pos.append(v)
    start = E.real("start")          # refine passes peakPosition - secondaryMargin: negative near the reference origin
    end = E.real("end")
    E.assume(pos[-1] < start + MAXBINS * res)
    E.assume(end < start + MAXBINS * res)
    try:
        seq = list(OpticalMap(1, pos[-1] + 10, list(pos)).getSequence(SequenceGenerator(res, radius), False, start, end))
        centres = [toRelativeGenomicPositions(i, res, start) for i in range(len(seq))]
    except Exception as ex:  # noqa
        E.fail("exception:" + type(ex).__name__)
        return ["exception", type(ex).__name__]
    if any(b == 1 for b in seq):
        E.tag("nontrivial")
    slack = radius * res
    E.check("a-set-bin-decodes-to-within-half-a-resolution-(plus-blur)-of-a-label", And([
        Or([And(2 * (g - p) <= res + 2 + 2 * slack, 2 * (p - g) <= res + 2 + 2 * slack) for p in pos])
        for b, g in zip(seq, centres) if b == 1]))
    inside = [And(p >= start, Or(And(Not(end == 0), p <= end), And(end == 0, p <= pos[-1]))) for p in pos]
    E.check("every-label-of-the-window-is-located-by-a-set-bin-to-within-half-a-resolution", And([
        Implies(w, Or([And(2 * (g - p) <= res + 2, 2 * (p - g) <= res + 2) for b, g in zip(seq, centres) if b == 1]))
        for w, p in zip(inside, pos)]))
    return [[int(b) for b in seq]]


def configs_window(tier):
    return [{"n": n, "res": res, "radius": r} for n in ((1, 2) if tier == "quick" else (1, 2, 3)) for res in (1, 100, 1400)
            for r in ((0, 1) if tier == "quick" else (0, 1, 2))]


def body_bin(E, cfg):
    res = cfg["res"]
    idx = E.int("bin")
    start = E.int("start") if cfg["int_start"] else E.real("start")
    try:
        if cfg["array"]:
            arr = np.empty(2, dtype=object)
            arr[0] = idx
            arr[1] = idx + 1
            out = toRelativeGenomicPositions(arr, res, start)
            got, got2 = out[0], out[1]
        else:
            got = toRelativeGenomicPositions(idx, res, start)
            got2 = None
    except Exception as ex:  # noqa
        E.fail("exception:" + type(ex).__name__)
        return ["exception", type(ex).__name__]
    E.tag("nontrivial")
    lo = start + idx * res
    centre = lo + (ceil(res / 2) - 1)
    E.check("result-is-the-bin-centre", got == centre)
    if got2 is not None:
        E.check("vectorised-over-an-array", got2 == centre + res)
    pint = E.int("integerLabel")
    preal = E.real("realLabel")
    if cfg["int_start"]:
        E.check("integer-label-in-the-bin-is-within-half-a-resolution",
                Implies(And(pint >= lo, pint < lo + res), And(2 * (got - pint) <= res, 2 * (pint - got) <= res)))
    E.check("real-label-in-the-bin-is-within-half-a-resolution-plus-one",
            Implies(And(preal >= lo, preal < lo + res), And(2 * (got - preal) <= res + 2, 2 * (preal - got) <= res + 2)))
    return [got]


def configs_bin(tier):
    return [{"res": r, "int_start": s, "array": a} for r in (1, 2, 3, 100, 1400, 1401) for s in (True, False) for a in (False, True)]


def body_select(E, cfg):
    counts, k = cfg["peaks"], cfg["count"]
    corrs = []
    allp = []
    for ci, n in enumerate(counts):
        peaks = []
        for i in range(n):
            if cfg.get("domain") is not None:       # small integer domain: code that hashes / indexes by score is enumerated, not lost
                sc = E.int(f"score{ci}_{i}")
                E.assume(sc >= 0)
                E.assume(sc <= cfg["domain"])
            else:
                sc = E.real(f"score{ci}_{i}")
            peaks.append(Peak(100 * ci + i, 1., 0, 0, sc))
        corrs.append(types.SimpleNamespace(peaks=peaks))
        allp.extend(peaks)
    try:
        sel = PeaksSelector(k).selectPeaks(iter(corrs))
    except Exception as ex:  # noqa
        E.fail("exception:" + type(ex).__name__)
        return ["exception", type(ex).__name__]
    chosen = [sp.peak for sp in sel]
    if len(allp) >= 2 and k >= 1:
        E.tag("nontrivial")
    E.check("number-kept-is-min(count,total)", len(chosen) == min(k, len(allp)))
    E.check("kept-are-distinct-input-peaks-with-their-correlation",
            len({id(p) for p in chosen}) == len(chosen) and all(any(p is x for x in allp) for p in chosen)
            and all(any(sp.peak is x for x in sp.primaryCorrelation.peaks) for sp in sel))
    E.check("descending-score-order", And([a.score >= b.score for a, b in zip(chosen, chosen[1:])]))
    rest = [p for p in allp if not any(p is c for c in chosen)]
    E.check("no-dropped-peak-scores-higher-than-a-kept-one", And([c.score >= x.score for c in chosen for x in rest]))
    return [[p.position for p in chosen]]


def configs_select(tier):
    shapes = [[0], [1], [2, 1], [1, 0, 2], [3, 2]] if tier == "quick" else [[0], [1], [2, 1], [1, 0, 2], [3, 2], [2, 2, 2], [3, 3, 1], [2, 2, 2, 1]]
    return [{"peaks": s, "count": k} for s in shapes for k in (0, 1, 2, 3, 6) if not (tier == "quick" and sum(s) >= 5 and k in (2, 6))] + \
        [{"peaks": [2, 1], "count": k, "domain": 2} for k in (1, 2)]


def body_create(E, cfg):
    n, k, res = cfg["n"], cfg["count"], cfg["res"]
    heights = np.empty(n, dtype=object)
    positions = np.empty(n, dtype=object)
    left = np.empty(n, dtype=object)
    right = np.empty(n, dtype=object)
    hs = []
    for i in range(n):
        h = E.real(f"height{i}")
        hs.append(h)
        heights[i] = h
        positions[i] = 10 * i + 3
        left[i] = 10 * i + 1
        right[i] = 10 * i + 5
    start = E.int("correlationStart")
    noise = E.real("noise")
    try:
        peaks = CorrelationResult.createPeaks(positions, {"peak_heights": heights, "left_ips": left, "right_ips": right}, res, start, noise, k)
    except Exception as ex:  # noqa
        E.fail("exception:" + type(ex).__name__)
        return ["exception", type(ex).__name__]
    if n >= 2 and 1 <= k < n:
        E.tag("nontrivial")
    adj = ceil(res / 2) - 1
    E.check("number-kept-is-min(count,total)", len(peaks) == min(k, n))
    # identify each returned peak by its position (positions are distinct)
    idx = []
    ok = True
    for p in peaks:
        cand = [i for i in range(n) if E.holds(p.position == (10 * i + 3) * res + adj + start)]
        if len(cand) != 1:
            ok = False
            break
        idx.append(cand[0])
    E.check("kept-peaks-are-input-peaks-at-their-bin-centres", ok and len(set(idx)) == len(idx))
    if not ok:
        return ["unidentified"]
    E.check("height-score-and-bases-carried-over", And([And(p.height == hs[i], p.score == hs[i] - noise,
                                                         p.leftProminenceBasePosition == (10 * i + 1) * res + adj + start,
                                                         p.rightProminenceBasePosition == (10 * i + 5) * res + adj + start)
                                                     for p, i in zip(peaks, idx)]))
    rest = [i for i in range(n) if i not in idx]
    E.check("no-dropped-peak-is-higher-than-a-kept-one", And([hs[i] >= hs[j] for i in idx for j in rest]))
    return [sorted(idx)]


def configs_create(tier):
    top = 4 if tier == "quick" else 7
    return [{"n": n, "count": k, "res": r} for n in range(0, top + 1) for k in (1, 2, 3, 10) for r in (100,) if not (n == 0 and k > 1)]


def units(prop):
    return [
        Unit(name="vectorisePositions", body=body_vectorise, configs=configs_vectorise,
             functions=["src.correlation.vectorise:vectorisePositions"],
             bounds="1..3 (quick) / 1..4 (thorough) labels in non-decreasing order, symbolic real coordinates, symbolic start (may be "
                    "negative or beyond labels) and optional symbolic end; resolution in {1, 100} (quick) / {1, 3, 100, 1400}; all labels and "
                    "the end below start + 8 bins",
             nontrivial_rule="a non-empty vector is produced",
             assumptions=["labels sorted (reader sorts them)", "at most 8 bins (bounds the generator's loop)"],
             outside=["symbolic resolution (would make i*resolution non-linear; the code rejects non-int resolutions)", "more than 8 bins"]),
        Unit(name="blur", body=body_blur, configs=configs_blur, functions=["src.correlation.vectorise:blur"],
             bounds="vectors of 0, 1, 3 and 6 (quick) / 8 (thorough) symbolic bits, radius 0..4",
             nontrivial_rule="every path", outside=["vectors longer than 8"]),
        Unit(name="refinement-window-round-trip", body=body_window, configs=configs_window,
             functions=["src.correlation.optical_map:OpticalMap.getSequence", "src.correlation.sequence_generator:SequenceGenerator.positionsToSequence",
                        "src.correlation.vectorise:vectorisePositions", "src.correlation.vectorise:blur",
                        "src.correlation.optical_map:toRelativeGenomicPositions"],
             bounds="1..2 (quick) / 1..3 (thorough) non-negative labels, symbolic window start (may be negative) and end, <= 8 bins, resolution in "
                    "{1, 100, 1400}, blur radius 0..1 (quick) / 0..2",
             nontrivial_rule="a bit is set",
             assumptions=["label coordinates are >= 0", "the window is decoded with the same start that was passed to getSequence, as "
                          "InitialAlignment.refine does (referenceStart)", "real coordinates: bound res/2 + 1 (see toRelativeGenomicPositions)"],
             outside=["the correlation between the two calls (C06)", "more than 8 bins"]),
        Unit(name="toRelativeGenomicPositions", body=body_bin, configs=configs_bin,
             functions=["src.correlation.optical_map:toRelativeGenomicPositions"],
             bounds="symbolic unbounded integer bin index and integer/real start; resolution in {1, 2, 3, 100, 1400, 1401}; scalar and "
                    "object-array argument; label integer (bound res/2) or real (bound res/2 + 1)",
             nontrivial_rule="every path",
             assumptions=["'within half a resolution' is read for integer label coordinates; for real coordinates the centre convention "
                          "ceil(res/2)-1 gives res/2 + 1, which is what is checked"],
             outside=["symbolic resolution"]),
        Unit(name="selectPeaks", body=body_select, configs=configs_select, functions=["src.correlation.peaks_selector:PeaksSelector.selectPeaks"],
             bounds="up to 3 correlations with 0..3 peaks each (<= 5 peaks quick, 6 thorough), symbolic real scores, count in {0,1,2,3,6}",
             nontrivial_rule="at least two peaks and count >= 1", outside=["more than 6 peaks"]),
        Unit(name="createPeaks", body=body_create, configs=configs_create, functions=["src.correlation.optical_map:CorrelationResult.createPeaks"],
             bounds="0..4 (quick) / 0..5 (thorough) peaks with symbolic real heights in numpy object arrays, count in {1,2,3,10}, "
                    "symbolic correlation start and noise level",
             nontrivial_rule="count smaller than the number of peaks (selection happens)",
             stubs=["numpy object-dtype arrays instead of float arrays (np.argpartition compares proxies)"],
             outside=["float64 arrays (NaN ordering, rounding)"]),
    ]
