"""C03 -- HitEnum is a faithful run-length encoding of the aligned pairs.

Real code executed: AlignmentResultRow.cigarString (+ __getHitEnums, __removeDuplicateQueryPositionsPreservingLastOne,
__aggregateHitEnums, __hitToString) on a row whose segments hold n pairs of the real classes.  The first pair's label numbers
are unbounded symbolic integers (translation invariance is decided by the solver); the label gaps are symbolic in 1..G.
Instrumentation: the builtin `range` is shadowed inside src.alignment.alignment_results by a lazily iterating equivalent so
that a symbolic bound is compared instead of being realised (listed as a stub).
"""
import re

from symx import And, SymNum
from symx.runner import Unit
from harness import multipass

import src.alignment.alignment_results as ar
from src.alignment.alignment_results import AlignmentResultRow
from src.alignment.alignment_position import ScoredAlignedPair, AlignedPair
from src.alignment.segments import AlignmentSegment
from src.correlation.optical_map import PositionWithSiteId
from src.correlation.peak import Peak


def lazy_range(*a):
    if not any(isinstance(x, SymNum) for x in a):
        return range(*a)
    if len(a) == 3:
        raise NotImplementedError("symbolic range with a step")
    start, stop = (0, a[0]) if len(a) == 1 else a

    def gen():
        i = start
        while i < stop:
            yield i
            i = i + 1
    return gen()


def body(E, cfg):
    n, G, rev, split = cfg["n"], cfg["G"], cfg["rev"], cfg.get("split")
    r0 = E.int("r0")
    q0 = E.int("q0")
    E.assume(r0 >= 1)
    E.assume(q0 >= 1)
    rs, qs = [r0], [q0]
    for i in range(1, n):
        g = E.int(f"refgap{i}")
        h = E.int(f"qrygap{i}")
        for v in (g, h):
            E.assume(v >= 1)
            E.assume(v <= G)
        rs.append(rs[-1] + g)
        qs.append(qs[-1] - h if rev else qs[-1] + h)
    if rev:
        E.assume(qs[-1] >= 1)
    pairs = [ScoredAlignedPair(AlignedPair(PositionWithSiteId(r, 100 * i), PositionWithSiteId(q, 100 * i)), 1.0)
             for i, (r, q) in enumerate(zip(rs, qs))]
    if split:
        segs = [AlignmentSegment(pairs[:split], 1.0, Peak(0, 1.), pairs), AlignmentSegment(pairs[split:], 1.0, Peak(5, 1.), pairs)]
    else:
        segs = [AlignmentSegment(pairs, 1.0, Peak(0, 1.), pairs)]
    # a chained segment that conflict resolution trimmed away entirely stays in the record as an empty segment (AlignmentSegment.create of
    # nothing): in front of, between or behind the segments that kept pairs
    for where in cfg.get("empty", ()):
        hole = AlignmentSegment.create([], Peak(9, 1.), [])
        segs.insert({"first": 0, "middle": 1, "last": len(segs)}[where], hole)
    row = AlignmentResultRow(segs, reverseStrand=rev)
    saved = ar.__dict__.get("range")
    ar.range = lazy_range
    try:
        s = row.cigarString
    except Exception as ex:  # noqa
        E.fail("exception:" + type(ex).__name__)
        return ["exception", type(ex).__name__]
    finally:
        if saved is None:
            del ar.range
        else:
            ar.range = saved
    if n >= 2:
        E.tag("nontrivial")
    ok = isinstance(s, str)
    E.check("is-a-string", ok)
    if not ok:
        return ["not-a-string"]
    ops = re.findall(r"(\d+)([MDI])", s)
    wellformed = "".join(a + b for a, b in ops) == s
    E.check("well-formed-run-length-string", wellformed)
    E.check("non-empty-when-there-is-a-pair", len(ops) > 0)
    if not wellformed or not ops:
        return [s]
    E.check("starts-and-ends-with-M", ops[0][1] == "M" and ops[-1][1] == "M")
    E.check("adjacent-runs-differ", all(x[1] != y[1] for x, y in zip(ops, ops[1:])))
    E.check("counts-at-least-1", all(int(a) >= 1 for a, _ in ops))
    # replay from the first pair
    d = -1 if rev else 1
    r, q = rs[0], qs[0]
    out = []
    first = True
    for cnt, op in ops:
        for _ in range(int(cnt)):
            if op == "M":
                if not first:
                    r = r + 1
                    q = q + d
                first = False
                out.append((r, q))
            elif op == "D":
                r = r + 1
            else:
                q = q + d
    E.check("replay-yields-exactly-the-listed-pairs",
            And([len(out) == n] + [And(a == x, b == y) for (a, b), x, y in zip(out, rs, qs)]))
    return [s]


def classify(cfg, snap, failures, out):
    return None


def configs(tier):
    N, G = (4, 3) if tier == "quick" else (6, 4)
    cfgs = []
    for n in range(1, N + 1):
        for rev in (False, True):
            cfgs.append({"n": n, "G": G, "rev": rev})
            if n >= 2:
                cfgs.append({"n": n, "G": G, "rev": rev, "split": n // 2})
            if n <= 3:
                cfgs.append({"n": n, "G": G, "rev": rev, "empty": ["first"]})
                cfgs.append({"n": n, "G": G, "rev": rev, "empty": ["last"]})
                if n >= 2:
                    cfgs.append({"n": n, "G": G, "rev": rev, "split": 1, "empty": ["first", "middle"]})
    return cfgs


def units(prop):
    return [Unit(
        name="cigarString",
        body=body, configs=configs, classify=classify,
        shard_depth=lambda cfg, tier: 10 if cfg["n"] >= 4 else None,
        functions=["src.alignment.alignment_results:AlignmentResultRow.cigarString",
                   "src.alignment.alignment_results:AlignmentResultRow.__getHitEnums",
                   "src.alignment.alignment_results:AlignmentResultRow.__aggregateHitEnums",
                   "src.alignment.alignment_results:AlignmentResultRow.__removeDuplicateQueryPositionsPreservingLastOne",
                   "src.alignment.alignment_results:AlignmentResultRow.__hitToString"],
        bounds="n = 1..4 pairs with label gaps 1..3 on both maps (quick) / n = 1..6, gaps 1..4 (thorough, n = 6 under the budget); both orientations; the "
               "pairs in one segment or split over two; for n <= 3 also with emptied segments in front of, between or behind them; first pair's label "
               "numbers are unbounded symbolic integers >= 1",
        nontrivial_rule="row with at least two pairs",
        assumptions=["the pairs form a valid matching (strictly ascending reference labels, strictly monotone query labels): C01"],
        stubs=["builtin range shadowed inside src.alignment.alignment_results by an equivalent lazy generator (no realisation of "
               "symbolic bounds)"],
        outside=["gaps larger than G (the walk's trip count equals the gap, so gap values are enumerated by forks)",
                 "more than 5 pairs"],
    ), multipass.multipass_unit(prop)]
