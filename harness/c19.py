"""C19 -- alignment comparison partitions keys; measures are bounded and reflexive.

Real code: AlignmentComparer.compare (+ __toDict, __getNotMatchingAlignments), AlignmentComparison.create,
AlignmentRowComparer.compare (+ difference, coverage, SequenceMatcher identity, source combining).
All inputs of this code are ids and label numbers that the code hashes (dict / set / SequenceMatcher): they are symbolic integers
with small declared domains which the engine *realises* at the hash boundary, i.e. the solver enumerates the feasible id
combinations rather than abstracting them (stated in the evidence as realisation forks).  Measures returned by the injected row
comparer in unit `compare` are symbolic reals in [0, 1].
"""
import itertools
import math
import statistics

from symx import And, Or, Not, Implies, SymNum
from symx.runner import Unit

import src.diagnostic.alignment_comparer as ac
from src.diagnostic.alignment_comparer import AlignmentComparer, AlignmentRowComparer, AlignmentComparison, AlignmentRowComparison, \
    AlignmentRowComparisonResultType
from src.diagnostic.benchmark_alignment import BenchmarkAlignedPair, BenchmarkAlignmentPosition
from src.correlation.bionano_alignment import BionanoAlignment


def small_int(E, name, lo, hi):
    v = E.int(name)
    E.assume(v >= lo)
    E.assume(v <= hi)
    return v


def mk_alignment(E, tag, pairs=None):
    q = small_int(E, f"{tag}_queryId", 1, 2)
    r = small_int(E, f"{tag}_referenceId", 1, 2)
    return BionanoAlignment(1, q, r, 0, 0, 0, 0, False, 1., "", 10, 10, pairs or [])


def sym_fmean(xs):
    xs = list(xs)
    if any(isinstance(x, SymNum) for x in xs):
        return sum(xs) / len(xs)
    return statistics.fmean(xs)


def sym_fsum(xs):
    xs = list(xs)
    if any(isinstance(x, SymNum) for x in xs):
        return sum(xs)
    return math.fsum(xs)


class _Shim:
    """a module proxy: the float-converting reductions accept symbolic numbers (exact sum / count), everything else is the real module"""

    def __init__(self, real, repl):
        self._real, self._repl = real, repl

    def __getattr__(self, name):
        return self._repl.get(name) or getattr(self._real, name)


class numeric_shims:
    """while active, the module-level names `statistics` and `math` of src.diagnostic.alignment_comparer (whichever it imports) are proxies
    whose fmean / mean / fsum do not convert to float; names the module does not have are left alone"""
    REPL = {"statistics": (statistics, {"fmean": sym_fmean, "mean": sym_fmean}), "math": (math, {"fsum": sym_fsum})}

    def __enter__(self):
        self.saved = {}
        for name, (real, repl) in self.REPL.items():
            if getattr(ac, name, None) is real:
                self.saved[name] = real
                setattr(ac, name, _Shim(real, repl))

    def __exit__(self, *a):
        for name, real in self.saved.items():
            setattr(ac, name, real)


class StubRowComparer:
    """symmetric arbitrary measures: coverage of x against y, identity of the unordered pair"""

    def __init__(self, E):
        self.E = E
        self.calls = []

    def compare(self, a1, a2):
        E = self.E
        t1, t2 = a1.tag, a2.tag
        c1 = E.real(f"coverage_{t1}_vs_{t2}")
        c2 = E.real(f"coverage_{t2}_vs_{t1}")
        idn = E.real("identity_" + "_".join(sorted([t1, t2])))
        for v in (c1, c2, idn):
            E.assume(v >= 0)
            E.assume(v <= 1)
        self.calls.append((t1, t2))
        return AlignmentRowComparison(AlignmentRowComparisonResultType.BOTH, a1, a2, [], [], c1, c2, idn)


def body_compare(E, cfg):
    n1, n2 = cfg["n1"], cfg["n2"]
    A = [mk_alignment(E, f"a{i}") for i in range(n1)]
    B = [mk_alignment(E, f"b{i}") for i in range(n2)]
    for i, a in enumerate(A):
        a.tag = f"a{i}"
    for i, b in enumerate(B):
        b.tag = f"b{i}"
    try:
        with numeric_shims():
            s1 = StubRowComparer(E)
            res = AlignmentComparer(s1).compare(list(A), list(B))
            s2 = StubRowComparer(E)
            swp = AlignmentComparer(s2).compare(list(B), list(A))
    except Exception as ex:  # noqa
        E.fail("exception:" + type(ex).__name__)
        return ["exception", type(ex).__name__]
    k1 = {(int(a.queryId), int(a.referenceId)) for a in A}     # realised on this path
    k2 = {(int(b.queryId), int(b.referenceId)) for b in B}
    if k1 and k2:
        E.tag("nontrivial")
    total = res.overlapping + res.nonOverlapping + res.firstOnly + res.secondOnly
    E.check("every-key-classified-exactly-once", total == len(k1 | k2) and len(res.rows) == len(k1 | k2))
    E.check("only-counts-are-the-set-differences", res.firstOnly == len(k1 - k2) and res.secondOnly == len(k2 - k1))
    E.check("overlapping-plus-non-overlapping-are-the-common-keys", res.overlapping + res.nonOverlapping == len(k1 & k2))
    E.check("swapping-inputs-swaps-first-and-second", And(swp.firstOnly == res.secondOnly, swp.secondOnly == res.firstOnly,
                                                          swp.overlapping == res.overlapping, swp.nonOverlapping == res.nonOverlapping,
                                                          swp.avgOverlappingAlignment1Coverage == res.avgOverlappingAlignment2Coverage,
                                                          swp.avgOverlappingAlignment2Coverage == res.avgOverlappingAlignment1Coverage,
                                                          swp.avgOverlappingIdentity == res.avgOverlappingIdentity))
    E.check("averages-in-0-1", And([And(x >= 0, x <= 1) for x in (res.avgOverlappingAlignment1Coverage, res.avgOverlappingAlignment2Coverage,
                                                                    res.avgOverlappingIdentity)]))
    return [res.overlapping, res.nonOverlapping, res.firstOnly, res.secondOnly]


def mk_pairs(E, tag, n, lo=1, hi=3, qhi=None):
    out = []
    for i in range(n):
        r = small_int(E, f"{tag}_ref{i}", lo, hi)
        q = small_int(E, f"{tag}_qry{i}", lo, qhi or hi)
        out.append(BenchmarkAlignedPair(BenchmarkAlignmentPosition(r, 0), BenchmarkAlignmentPosition(q, 0)))
    return out


def body_row(E, cfg):
    combine = cfg["combine"]
    p1 = mk_pairs(E, "x", cfg["n1"], qhi=cfg.get("qhi"))
    p2 = mk_pairs(E, "y", cfg["n2"], qhi=cfg.get("qhi"))
    a1 = BionanoAlignment(1, 1, 1, 0, 0, 0, 0, False, 1., "", 10, 10, p1)
    a2 = BionanoAlignment(2, 1, 1, 0, 0, 0, 0, False, 1., "", 10, 10, p2)
    try:
        rc = AlignmentRowComparer(combine)
        res = rc.compare(a1, a2)
        selfcmp = rc.compare(a1, a1)
    except Exception as ex:  # noqa
        E.fail("exception:" + type(ex).__name__)
        return ["exception", type(ex).__name__]
    if p1 and p2:
        E.tag("nontrivial")
    vals = [res.identity, res.alignment1Coverage, res.alignment2Coverage]
    E.check("identity-and-coverages-in-0-1", all(0 <= float(v) <= 1 for v in vals))
    if p1:
        E.check("self-comparison-gives-identity-1-coverage-1-no-exclusive-pairs",
                selfcmp.identity == 1 and selfcmp.alignment1Coverage == 1 and selfcmp.alignment2Coverage == 1
                and not selfcmp.alignment1ExclusivePairs and not selfcmp.alignment2ExclusivePairs)
    sw = rc.compare(a2, a1)
    E.check("swapping-swaps-coverages-and-exclusive-pairs", sw.alignment1Coverage == res.alignment2Coverage
            and sw.alignment2Coverage == res.alignment1Coverage and set(sw.alignment1ExclusivePairs) == set(res.alignment2ExclusivePairs))
    E.check("exclusive-pairs-are-the-set-differences-when-not-combining",
            combine or (set(res.alignment1ExclusivePairs) == set(p1) - set(p2) and set(res.alignment2ExclusivePairs) == set(p2) - set(p1)))
    return [float(v) for v in vals]


def body_create(E, cfg):
    n = cfg["n"]
    rows = []
    for i in range(n):
        kind = E.choose(["both", "first", "second"], f"row{i}-kind")
        a = BionanoAlignment(1, 1, 1, 0, 0, 0, 0, False, 1., "", 10, 10, [])
        if kind == "both":
            idn = E.real(f"identity{i}")
            c1, c2 = E.real(f"cov1_{i}"), E.real(f"cov2_{i}")
            for v in (idn, c1, c2):
                E.assume(v >= 0)
                E.assume(v <= 1)
            rows.append(AlignmentRowComparison(AlignmentRowComparisonResultType.BOTH, a, a, [], [], c1, c2, idn))
        elif kind == "first":
            rows.append(AlignmentRowComparison.alignment1Only(a))
        else:
            rows.append(AlignmentRowComparison.alignment2Only(a))
    try:
        with numeric_shims():
            res = AlignmentComparison.create(list(rows))
    except Exception as ex:  # noqa
        E.fail("exception:" + type(ex).__name__)
        return ["exception", type(ex).__name__]
    if n >= 2:
        E.tag("nontrivial")
    E.check("four-counters-sum-to-the-number-of-rows", res.overlapping + res.nonOverlapping + res.firstOnly + res.secondOnly == n)
    both = [r for r in rows if r.type == AlignmentRowComparisonResultType.BOTH]
    E.check("first-and-second-only-counts", res.firstOnly == sum(1 for r in rows if r.type == AlignmentRowComparisonResultType.FIRST_ONLY)
            and res.secondOnly == sum(1 for r in rows if r.type == AlignmentRowComparisonResultType.SECOND_ONLY)
            and res.overlapping + res.nonOverlapping == len(both))
    E.check("averages-in-0-1", And([And(x >= 0, x <= 1) for x in (res.avgOverlappingAlignment1Coverage, res.avgOverlappingAlignment2Coverage,
                                                                    res.avgOverlappingIdentity)]))
    return [res.overlapping, res.nonOverlapping, res.firstOnly, res.secondOnly]


def units(prop):
    return [
        Unit(name="AlignmentComparer.compare", body=body_compare,
             configs=lambda tier: [dict(n1=a, n2=b) for a in range(0, 3) for b in range(0, 3)] + ([dict(n1=3, n2=2), dict(n1=3, n2=3)] if tier != "quick" else []),
             functions=["src.diagnostic.alignment_comparer:AlignmentComparer", "src.diagnostic.alignment_comparer:AlignmentComparison.create"],
             bounds="0..2 + 0..2 alignments (thorough 3 + 2) whose query and reference ids range over {1,2} (realised at the dict boundary); "
                    "identity and coverages returned by the injected row comparer are symbolic reals in [0,1]",
             nontrivial_rule="both sets non-empty",
             stubs=["row comparer injected (arbitrary symmetric measures)", "statistics.fmean/mean and math.fsum replaced by exact sum(/len) inside "
                    "src.diagnostic.alignment_comparer (they convert to float)"],
             assumptions=["ids are enumerated by realisation forks, not abstracted"], outside=["more than 3 alignments per set, ids outside {1,2}"],
             shard_depth=lambda cfg, tier: 6),
        Unit(name="AlignmentRowComparer.compare", body=body_row,
             configs=lambda tier: [dict(n1=a, n2=b, combine=c) for a in range(0, 3) for b in range(0, 3) for c in (False, True)] +
                                  [dict(n1=3, n2=2, combine=True, qhi=2), dict(n1=2, n2=3, combine=True, qhi=2)] +
                                  ([dict(n1=3, n2=3, combine=c, qhi=2) for c in (False, True)] if tier != "quick" else []),
             functions=["src.diagnostic.alignment_comparer:AlignmentRowComparer"],
             bounds="two pair lists of 0..2 pairs with reference and query label numbers in 1..3 (duplicates allowed), with and without combining; "
                    "lists of 3 + 2 and 2 + 3 pairs (thorough 3 + 3) with reference labels 1..3 and query labels 1..2, combining on",
             nontrivial_rule="both lists non-empty", witness=False,
             assumptions=["label numbers are enumerated by realisation forks (hashing in set / SequenceMatcher)"],
             outside=["longer pair lists"], shard_depth=lambda cfg, tier: 6),
        Unit(name="AlignmentComparison.create", body=body_create,
             configs=lambda tier: [dict(n=k) for k in range(0, (4 if tier == "quick" else 7))],
             functions=["src.diagnostic.alignment_comparer:AlignmentComparison.create"],
             bounds="0..3 (quick) / 0..4 (thorough) rows of the three kinds with symbolic measures in [0,1]",
             nontrivial_rule="at least two rows", stubs=["statistics.fmean/mean and math.fsum replaced by exact sum(/len)"], outside=["more rows"]),
    ]
