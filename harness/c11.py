"""C11 -- mirroring a query mirrors its first-pass alignment.

Decomposition around the FFT (a deterministic function of its array arguments, not executed):
  sequence-mirror   real OpticalMap.getSequence (vectorisePositions + blur): the reverse-strand bit vector of Q equals, bit for bit,
                    the forward vector of mirror(Q) when labels lie on the resolution lattice  => both correlations, hence the seeds,
                    are identical for Q on '-' and mirror(Q) on '+';
  align-mirror      for identical arbitrary seeds the whole real Aligner.align gives, for (Q, reverse) and (mirror(Q), forward), records
                    with the same reference labels, query label k <-> N+1-k, equal Confidence and mirrored header fields; labels on
                    an integer lattice (step 1) and maxPairDistance < 1/2 (the property's no-equidistant-ties premise).
"""
from fractions import Fraction

from symx import And, Or, Not, Implies
from symx.runner import Unit

from harness import pipeline
from harness.pipeline import scoring_params, build_aligner
from src.correlation.optical_map import OpticalMap
from src.correlation.peak import Peak
from src.correlation.sequence_generator import SequenceGenerator


def lattice(E, name, k, first_zero):
    xs = []
    for i in range(k):
        v = E.int(f"{name}{i}")
        if i == 0:
            E.assume(v == 0 if first_zero else v >= 0)
        else:
            E.assume(v > xs[-1])
        xs.append(v)
    return xs


def mirror_map(Q):
    last = Q.positions[-1]
    return OpticalMap(Q.moleculeId, Q.length, [last - p for p in reversed(Q.positions)])


# ------------------------------------------------------------------------------------------------ sequence-mirror

def body_sequence(E, cfg):
    n, res, radius, maxbins = cfg["n"], cfg["res"], cfg["radius"], cfg["maxbins"]
    k = lattice(E, "bin", n, True)
    E.assume(k[-1] < maxbins)
    pos = [res * x for x in k]
    Q = OpticalMap(7, pos[-1] + 1, pos)
    M = mirror_map(Q)
    gen = SequenceGenerator(res, radius)
    try:
        a = list(Q.getSequence(gen, reverseStrand=True))
        b = list(M.getSequence(gen, reverseStrand=False))
    except Exception as ex:  # noqa
        E.fail("exception:" + type(ex).__name__)
        return ["exception", type(ex).__name__]
    if n >= 2:
        E.tag("nontrivial")
    E.check("reverse-strand-vector-equals-forward-vector-of-the-mirror-image", [int(x) for x in a] == [int(x) for x in b])
    return [[int(x) for x in a]]


def configs_sequence(tier):
    cfgs = []
    for n in ((1, 2, 3) if tier == "quick" else (1, 2, 3, 4)):
        for res, radius in ((100, 0), (100, 1), (1400, 1), (100, 4)):
            cfgs.append(dict(n=n, res=res, radius=radius, maxbins=6 if tier == "quick" else 8))
    return cfgs


# ------------------------------------------------------------------------------------------------ align-mirror

def body_align(E, cfg):
    KR, KQ, NP = cfg["KR"], cfg["KQ"], cfg["NP"]
    r = pipeline.ascending(E, "r", KR, first_ge=0)
    q = pipeline.ascending(E, "q", KQ, first_eq=0)
    P = scoring_params(E, cfg)
    # the property's premise (labels on a lattice, maxPairDistance below half the step) implies that neighbouring labels of a map
    # are more than 2 * maxPairDistance apart; that weaker, linear condition is what is assumed (real coordinates)
    for xs in (r, q):
        for a, b in zip(xs, xs[1:]):
            E.assume(b - a > 2 * P["maxD"])
    peaks = [Peak(E.real(f"seed{i}"), 30.) for i in range(NP)]
    if cfg.get("seed_order") == "asc":
        for a, b in zip(peaks, peaks[1:]):
            E.assume(a.position <= b.position)
    R = OpticalMap(1, r[-1] + 10, list(r))
    Q = OpticalMap(7, q[-1] + 1, list(q))
    M = mirror_map(Q)
    try:
        row1 = build_aligner(P).align(R, Q, peaks, True)
        row2 = build_aligner(P).align(R, M, peaks, False)
    except Exception as ex:  # noqa
        E.tag("exception-path")          # C07's subject
        E.check("checked", True)
        return ["exception", type(ex).__name__]
    p1 = [(p.reference.siteId, p.query.siteId) for p in row1.alignedPairs]
    p2 = [(p.reference.siteId, p.query.siteId) for p in row2.alignedPairs]
    if p1:
        E.tag("nontrivial")
    if len([s for s in row1.segments if s.positions]) >= 2:
        E.tag("multi-segment")
    N = KQ
    E.check("same-reference-labels-and-query-label-k-becomes-N+1-k", [(a, N + 1 - b) for a, b in p1] == p2)
    E.check("opposite-orientation", row1.orientation == "-" and row2.orientation == "+")
    E.check("same-confidence", row1.confidence == row2.confidence)
    E.check("header-fields-mirrored", And(row1.referenceStartPosition == row2.referenceStartPosition,
                                          row1.referenceEndPosition == row2.referenceEndPosition,
                                          row1.queryStartPosition == row2.queryEndPosition,
                                          row1.queryEndPosition == row2.queryStartPosition,
                                          row1.queryLength == row2.queryLength))
    E.check("same-HitEnum", row1.cigarString == row2.cigarString)
    return [p1, p2, row1.confidence]


def configs_align(tier):
    cfgs = [dict(KR=2, KQ=2, NP=1), dict(KR=3, KQ=2, NP=1), dict(KR=2, KQ=1, NP=2), dict(KR=2, KQ=2, NP=2, seed_order="asc")]
    if tier != "quick":
        # join multiplier 0 on the larger multi-seed configurations: the non-linear join score made 311 paths inconclusive (60 s
        # solver timeouts) in the first thorough run; admissibility, which is what differs between strands, does not depend on it
        cfgs += [dict(KR=3, KQ=3, NP=1), dict(KR=3, KQ=2, NP=2, seed_order="asc", sj="0"), dict(KR=2, KQ=2, NP=2, sj="0"),
                 dict(KR=2, KQ=1, NP=3, seed_order="asc", sj="0"), dict(KR=3, KQ=2, NP=2, seed_order="asc", ss=1, sj="0"),
                 dict(KR=2, KQ=3, NP=2, seed_order="asc", sj="0")]
    return cfgs


def units(prop):
    return [
        Unit(name="sequence-mirror", body=body_sequence, configs=configs_sequence,
             functions=["src.correlation.optical_map:OpticalMap.getSequence", "src.correlation.sequence_generator:SequenceGenerator.positionsToSequence",
                        "src.correlation.vectorise:vectorisePositions", "src.correlation.vectorise:blur"],
             bounds="trimmed query of 1..3 (quick) / 1..4 (thorough) labels at resolution x (symbolic integer bin), at most 6 / 8 bins; "
                    "(resolution, blur) in {(100,0), (100,1), (1400,1), (100,4)}",
             nontrivial_rule="at least two labels",
             assumptions=["label coordinates are multiples of the resolution (the property's premise)", "query trimmed (first label 0, length last+1)"],
             outside=["the FFT correlation and find_peaks themselves (deterministic functions of these vectors; not executed)",
                      "more than 8 bins"]),
        Unit(name="align-mirror", body=body_align, configs=configs_align, functions=pipeline.LEVEL1_FUNCTIONS,
             shard_depth=lambda cfg, tier: 22 if cfg["NP"] * cfg["KR"] * cfg["KQ"] >= 4 else None,
             bounds="whole Aligner.align on (Q, reverse) and (mirror(Q), forward) with the same seeds: 2x2/1, 3x2/1, 2x1/2, 2x2/2 (quick), up to "
                    "3x3/1, 3x2/2, 2x1/3 (thorough); unbounded real coordinates whose neighbouring labels are more than 2 x maxPairDistance "
                    "apart (implied by the lattice premise), real seeds and scoring parameters",
             nontrivial_rule="the record has at least one pair",
             assumptions=["identical seeds for both runs (justified by unit sequence-mirror: identical correlation inputs)",
                          "neighbouring labels of each map are more than 2 * maxPairDistance apart (implied by the property's lattice premise)", "exact real arithmetic"],
             outside=["candidate ordering across strands / references when two seeds or candidates tie exactly", "larger maps"]),
    ]
