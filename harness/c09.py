"""C09 -- output does not depend on the number of worker processes or on the run (decidable reduction, see harness/invariance.py)."""
from harness import invariance


def units(prop):
    return [invariance.noninterference_unit(), invariance.aggregation_unit(restrict=False), invariance.completion_order_unit(),
            invariance.sequence_state_unit(), invariance.hashseed_unit()]
