"""Level 1: the whole real Aligner.align (pair -> score -> cut -> chain -> resolve -> row) on tiny symbolic maps.

Shared by C01 (matching is one-to-one and collinear), C04 (Confidence is the configured score), C15 (conflict resolution
only trims).  The aligner is obtained from the real WorkflowCoordinatorFactory with a namespace of symbolic scoring arguments.
"""
import types
from fractions import Fraction

from symx import And, Or, Not, Implies
from symx.runner import Unit

from src.alignment.alignment_position import AlignedPair, NotAlignedReferencePosition, NotAlignedQueryPosition, \
    ScoredNotAlignedPosition, ScoredAlignedPair
from src.alignment.segments import AlignmentSegment, EmptyAlignmentSegment
from src.correlation.optical_map import OpticalMap
from src.correlation.peak import Peak
from src.extensions.dispatcher import Dispatcher
from src.workflow_coordinator_factory import WorkflowCoordinatorFactory


def make_args(**kw):
    base = dict(outputMode="single", primaryResolution=1400, primaryBlur=1, secondaryResolution=100, secondaryBlur=4,
                secondaryMargin=16000, referenceIds=None, queryIds=None, numberOfCpus=1, minPeakDistance=20000,
                maxPairDistance=1500, peakHeightThreshold=27., perfectMatchScore=1000, distancePenaltyMultiplier=1.,
                unmatchedPenalty=-250, minScore=1000, breakSegmentThreshold=1200, maxDifference=100000,
                diagnosticsEnabled=False, benchmarkAlignmentFile=None, peaksCount=3, disableProgressBar=True,
                segmentJoinMultiplier=1., sequentialityScore=0,
                referenceFile=types.SimpleNamespace(name="r.cmap"), queryFile=types.SimpleNamespace(name="q.cmap"),
                outputFile=types.SimpleNamespace(name="o.xmap", encoding="utf8"))
    base.update(kw)
    return types.SimpleNamespace(**base)


def ascending(E, name, k, first_eq=None, first_ge=None, strict=True):
    xs = []
    for i in range(k):
        v = E.real(f"{name}{i}")
        if i == 0:
            if first_eq is not None:
                E.assume(v == first_eq)
            elif first_ge is not None:
                E.assume(v >= first_ge)
        else:
            E.assume(v > xs[-1] if strict else v >= xs[-1])
        xs.append(v)
    return xs


def scoring_params(E, cfg):
    sp = E.real("perfectMatchScore")
    su = E.real("unmatchedPenalty")
    ms = E.real("minScore")
    bs = E.real("breakSegmentThreshold")
    maxD = E.real("maxPairDistance")
    E.assume(su <= 0)
    E.assume(ms > 0)
    E.assume(bs >= 0)
    E.assume(maxD >= 0)
    return dict(sp=sp, su=su, ms=ms, bs=bs, maxD=maxD, dp=Fraction(cfg.get("dp", "1")),
                sj=Fraction(cfg.get("sj", "1")), ss=cfg.get("ss", 0))


def build_aligner(P):
    args = make_args(perfectMatchScore=P["sp"], unmatchedPenalty=P["su"], minScore=P["ms"], breakSegmentThreshold=P["bs"],
                     maxPairDistance=P["maxD"], distancePenaltyMultiplier=P["dp"], segmentJoinMultiplier=P["sj"],
                     sequentialityScore=P["ss"])
    return WorkflowCoordinatorFactory(args, Dispatcher([]), None).create().aligner


class Recorder:
    """observes (without changing) the inputs of resolveConflicts and every pairwise resolution"""

    def __init__(self):
        self.inputs = None
        self.scores = {}
        self.resolutions = []

    def install(self, aligner):
        rec = self
        resolver = aligner.segmentConflictResolver
        orig = resolver.resolveConflicts

        def resolveConflicts(segments):
            rec.inputs = list(segments)
            rec.scores = {id(p): p.score for sg in segments for p in sg.positions}
            return orig(segments)
        resolver.resolveConflicts = resolveConflicts
        self._saved = []
        for cls in (AlignmentSegment, EmptyAlignmentSegment):
            real = cls.__dict__["checkForConflicts"]
            self._saved.append((cls, real))

            def checkForConflicts(self_, other, _real=real):
                pair = _real(self_, other)
                realResolve = pair.resolveConflict

                def resolveConflict():
                    out = realResolve()
                    rec.resolutions.append((self_, other, out[0], out[1]))
                    return out
                pair.resolveConflict = resolveConflict
                return pair
            cls.checkForConflicts = checkForConflicts

    def uninstall(self):
        for cls, real in self._saved:
            cls.checkForConflicts = real


def run_level1(E, cfg, prepare=None, repeat=False):
    """returns ctx; ctx['exc'] is set when the real code raised"""
    KR, KQ, NP, rev = cfg["KR"], cfg["KQ"], cfg["NP"], cfg["rev"]
    fragment = cfg.get("fragment", False)
    strict = not cfg.get("coincident", False)
    r = ascending(E, "r", KR, first_ge=0, strict=strict)
    q = ascending(E, "q", KQ, first_eq=None if fragment else 0, first_ge=0 if fragment else None, strict=strict)
    if fragment:
        qlen = E.real("qlen")
        E.assume(qlen >= (q[-1] + 1 if q else 1))
        shift = 3
    else:
        qlen = (q[-1] + 1) if q else 1
        shift = 0
    P = scoring_params(E, cfg)
    peaks = [Peak(E.real(f"seed{i}"), 30.) for i in range(NP)]
    order = cfg.get("seed_order")
    for a, b in zip(peaks, peaks[1:]):
        if order == "asc":
            E.assume(a.position <= b.position)
        elif order == "desc":
            E.assume(a.position >= b.position)
    R = OpticalMap(1, (r[-1] + 10) if r else 10, list(r))
    Q = OpticalMap(7, qlen, list(q), shift=shift)
    rlab = {i + 1: r[i] for i in range(KR)}
    qlab = {i + 1 + shift: ((qlen - 1 - q[i]) if rev else q[i]) for i in range(KQ)}
    ctx = dict(E=E, cfg=cfg, r=r, q=q, qlen=qlen, R=R, Q=Q, P=P, peaks=peaks, rlab=rlab, qlab=qlab, rev=rev, exc=None)
    rec = Recorder()
    try:
        aligner = build_aligner(P)
        ctx["aligner"] = aligner
        if prepare:
            prepare(aligner, ctx)
        rec.install(aligner)
        try:
            ctx["row"] = aligner.align(R, Q, peaks if NP != 1 or cfg.get("as_list") else peaks[0], rev)
            if repeat:
                ctx["row2"] = aligner.align(R, Q, peaks if NP != 1 or cfg.get("as_list") else peaks[0], rev)
        finally:
            rec.uninstall()
    except Exception as ex:  # noqa
        ctx["exc"] = ex
    ctx["rec"] = rec
    return ctx


def summary(ctx):
    if ctx["exc"] is not None:
        return ["exception", type(ctx["exc"]).__name__]
    row = ctx["row"]
    return [[(p.reference.siteId, p.query.siteId) for p in row.alignedPairs], row.confidence,
            [len(s.positions) for s in row.segments]]


def tag_path(E, ctx):
    if ctx["exc"] is not None:
        return
    row = ctx["row"]
    ne = [s for s in row.segments if s.positions]
    if row.alignedPairs:
        E.tag("nontrivial")
    if len(ne) >= 2:
        E.tag("multi-segment")
    if ctx["rec"].inputs is not None and len([s for s in ctx["rec"].inputs if s.positions]) >= 2:
        E.tag("two-input-segments")
    if any(l.positions and r_.positions and (len(nl.positions) < len(l.positions) or len(nr.positions) < len(r_.positions))
           for l, r_, nl, nr in ctx["rec"].resolutions):
        E.tag("trimmed")


# ------------------------------------------------------------------------------------------------ oracles

def valid_matching(pairs, rlab_ids, qlab_ids, rev):
    """C01's rule on a list of (referenceLabel, queryLabel) numbers as listed; returns list of failed clause names"""
    bad = []
    if not all(a in rlab_ids and b in qlab_ids for a, b in pairs):
        bad.append("pairs-only-labels-that-exist")
    if len({a for a, _ in pairs}) != len(pairs):
        bad.append("reference-label-used-at-most-once")
    if len({b for _, b in pairs}) != len(pairs):
        bad.append("query-label-used-at-most-once")
    if not all(a < c for (a, _), (c, _) in zip(pairs, pairs[1:])):
        bad.append("pairs-listed-in-strictly-ascending-reference-order")
    if not all((b > d) if rev else (b < d) for (_, b), (_, d) in zip(pairs, pairs[1:])):
        bad.append("query-labels-strictly-monotone-along-reference-order")
    return bad


def oracle_c01(E, ctx):
    if ctx["exc"] is not None:
        E.fail("exception:" + type(ctx["exc"]).__name__)
        return
    row = ctx["row"]
    pairs = [(p.reference.siteId, p.query.siteId) for p in row.alignedPairs]
    bad = valid_matching(pairs, ctx["rlab"], ctx["qlab"], ctx["rev"])
    for b in bad:
        E.fail(b)
    if not bad:
        E.check("valid-matching", True)
    E.check("orientation-matches-strand", row.orientation == ("-" if ctx["rev"] else "+") and row.queryId == 7
            and row.referenceId == 1)


def position_labels(p):
    """(kind, refId, qryId, inner) of a (scored) alignment position"""
    inner = p.position if isinstance(p, ScoredNotAlignedPosition) else p
    if isinstance(inner, AlignedPair):
        return "P", inner.reference.siteId, inner.query.siteId, inner
    if isinstance(inner, NotAlignedReferencePosition):
        return "R", inner.reference.siteId, None, inner
    if isinstance(inner, NotAlignedQueryPosition):
        return "Q", None, inner.query.siteId, inner
    return "?", None, None, inner


def oracle_c04(E, ctx):
    if ctx["exc"] is not None:
        E.fail("exception:" + type(ctx["exc"]).__name__)
        return
    row, P, rlab, qlab = ctx["row"], ctx["P"], ctx["rlab"], ctx["qlab"]
    total = 0
    numeric = []
    for seg in row.segments:
        if not seg.positions:
            numeric.append(seg.segmentScore == 0)
            continue
        if not any(seg.peak is pk for pk in ctx["peaks"]):
            E.fail("segment-belongs-to-one-of-the-seed-peaks")
            return
        seed = seg.peak.position
        refs, qrys = [], []
        for p in seg.positions:
            kind, rid, qid, inner = position_labels(p)
            if kind == "?" or (rid is not None and rid not in rlab) or (qid is not None and qid not in qlab):
                E.fail("segment-lists-only-labels-of-the-maps")
                return
            if kind == "P":
                off = qlab[qid] - (rlab[rid] - seed)
                numeric.append(And(abs(off) <= P["maxD"], inner.queryShift == off))
                total = total + (P["sp"] - P["dp"] * abs(off))
                refs.append(rid)
                qrys.append(qid)
            else:
                total = total + P["su"]
                (refs if kind == "R" else qrys).append(rid if kind == "R" else qid)
        ok = sorted(refs) == list(range(min(refs), max(refs) + 1)) if refs else True
        okq = sorted(qrys) == list(range(min(qrys), max(qrys) + 1)) if qrys else True
        if not ok:
            E.fail("every-reference-label-inside-a-segment's-span-accounted-exactly-once")
        if not okq:
            E.fail("every-query-label-inside-a-segment's-span-accounted-exactly-once")
    rl = [position_labels(p)[1] for seg in row.segments for p in seg.positions if position_labels(p)[1] is not None]
    ql = [position_labels(p)[2] for seg in row.segments for p in seg.positions if position_labels(p)[2] is not None]
    if len(set(rl)) != len(rl) or len(set(ql)) != len(ql):
        E.fail("no-label-is-counted-twice-in-one-record-(paired-or-unpaired)")
    allpairs = [(position_labels(p)[1], position_labels(p)[2]) for seg in row.segments for p in seg.positions if position_labels(p)[0] == "P"]
    if len({a for a, _ in allpairs}) != len(allpairs) or len({b for _, b in allpairs}) != len(allpairs):
        E.fail("no-label-is-counted-in-two-pairs-of-one-record")
    E.check("offsets-within-maxPairDistance-and-relative-to-the-segment's-seed", And(numeric))
    E.check("confidence-equals-recomputed-score", row.confidence == total)


def oracle_c15(E, ctx):
    if ctx["exc"] is not None:
        E.fail("exception:" + type(ctx["exc"]).__name__)
        return
    row, rec, rev = ctx["row"], ctx["rec"], ctx["rev"]
    inputs = rec.inputs if rec.inputs is not None else []
    outs = [s for s in row.segments if s.positions]
    # list level ---------------------------------------------------------------------------
    used = []
    numeric = []
    for o in outs:
        owner = None
        for k, i in enumerate(inputs):
            ids = [id(p) for p in i.positions]
            oid = [id(p) for p in o.positions]
            if oid and oid[0] in ids:
                a = ids.index(oid[0])
                if ids[a:a + len(oid)] == oid:
                    owner = k
                    break
        if owner is None:
            if rec.inputs is None and len(row.segments) <= 1:
                owner = -1
            else:
                E.fail("every-result-segment-is-a-contiguous-sub-run-of-one-input-segment")
                return
        used.append(owner)
        numeric.append(o.segmentScore == sum(p.score for p in o.positions))
        numeric.extend(p.score == rec.scores[id(p)] for p in o.positions if id(p) in rec.scores)   # positions are not re-scored
    if len([u for u in used if u >= 0]) != len({u for u in used if u >= 0}):
        E.fail("each-input-segment-yields-at-most-one-result-segment")
    E.check("score-recomputed-as-sum-of-what-is-left", And(numeric))
    allpairs = sorted((p.reference.siteId, p.query.siteId) for o in outs for p in o.alignedPositions)
    bad = [b for b in valid_matching(allpairs, ctx["rlab"], ctx["qlab"], rev)]
    if "reference-label-used-at-most-once" in bad or "query-label-used-at-most-once" in bad:
        E.fail("no-two-result-segments-share-a-label")
    elif bad:
        E.fail("result-segments-do-not-cross")
    # pair level ---------------------------------------------------------------------------
    for left, right, nl, nr in rec.resolutions:
        lid = [id(p) for p in left.positions]
        rid_ = [id(p) for p in right.positions]
        nlid = [id(p) for p in nl.positions]
        nrid = [id(p) for p in nr.positions]

        def subrun(sub, full):
            if not sub:
                return True
            if sub[0] not in full:
                return False
            a = full.index(sub[0])
            return full[a:a + len(sub)] == sub
        if not (subrun(nlid, lid) and subrun(nrid, rid_)):
            E.fail("pairwise-resolution-only-removes-positions-keeping-a-contiguous-run")
            continue
        if left.positions and right.positions:
            first = right.alignedPositions[0]
            last = left.alignedPositions[-1]

            def before(p, x):
                return p.reference.siteId < x.reference.siteId and \
                    ((p.query.siteId > x.query.siteId) if rev else (p.query.siteId < x.query.siteId))
            kept_l = all(id(p) in nlid for p in left.alignedPositions if before(p, first))
            kept_r = all(id(p) in nrid for p in right.alignedPositions if before(last, p))
            if not kept_l:
                E.fail("pairs-of-the-earlier-segment-before-the-later-one's-first-pair-are-kept")
            if not kept_r:
                E.fail("pairs-of-the-later-segment-after-the-earlier-one's-last-pair-are-kept")
            both = sorted((p.reference.siteId, p.query.siteId) for s in (nl, nr) for p in s.alignedPositions)
            if valid_matching(both, ctx["rlab"], ctx["qlab"], rev):
                E.fail("after-a-pairwise-resolution-the-two-segments-share-no-label-and-do-not-cross")


ORACLES = {"C01": oracle_c01, "C04": oracle_c04, "C15": oracle_c15}


def make_body(prop):
    oracle = ORACLES[prop]

    def body(E, cfg):
        ctx = run_level1(E, cfg)
        tag_path(E, ctx)
        oracle(E, ctx)
        return summary(ctx)
    return body


def level1_configs(tier):
    cfgs = []

    def add(KR, KQ, NP, revs=(False, True), **kw):
        for rev in revs:
            cfgs.append(dict(KR=KR, KQ=KQ, NP=NP, rev=rev, **kw))
    if tier == "quick":
        add(0, 1, 1, revs=(False,))
        add(1, 0, 1, revs=(False,))
        add(2, 2, 1)
        add(3, 2, 1, revs=(False,), fragment=True)
        add(2, 2, 1, revs=(True,), fragment=True)
        add(3, 3, 1, revs=(True,), dp="2")
        add(2, 1, 2)
        add(2, 2, 2, revs=(True,), seed_order="asc")
        add(2, 1, 3, revs=(False,), sj="0", seed_order="asc")
        add(2, 1, 3, revs=(True,), seed_order="desc")
    else:
        add(0, 1, 1, revs=(False,))
        add(1, 0, 1, revs=(False,))
        add(3, 3, 1)
        add(4, 3, 1, revs=(False,), fragment=True)
        add(3, 1, 2)
        add(3, 1, 2, revs=(False,), dp="1/2")
        add(2, 2, 2)
        add(3, 2, 2, revs=(False,), dp="2", seed_order="asc")
        add(2, 1, 3, sj="0")
        add(2, 1, 3, revs=(False,), ss=1)
        add(3, 1, 3, revs=(False,), sj="0", seed_order="asc")
        add(2, 2, 3, revs=(True,), sj="0", seed_order="asc")
        # coincident labels (non-strictly ascending coordinates)
        add(2, 2, 1, coincident=True)
        add(3, 2, 1, revs=(False,), coincident=True)
        add(2, 1, 2, revs=(False,), coincident=True)
        add(2, 2, 2, revs=(False,), coincident=True, seed_order="asc")
    return cfgs


LEVEL1_FUNCTIONS = [
    "src.alignment.aligner:Aligner.align", "src.alignment.aligner:Aligner.getSegments", "src.alignment.aligner:AlignerEngine",
    "src.alignment.alignment_position:AlignedPair", "src.alignment.alignment_position_scorer:AlignmentPositionScorer",
    "src.alignment.segments_factory:_AlignmentSegmentBuilder", "src.alignment.segment_chainer:SegmentChainer.chain",
    "src.alignment.segment_chainer:SequentialityScorer.getScore",
    "src.alignment.segment_with_resolved_conflicts:AlignmentSegmentConflictResolver",
    "src.alignment.segments:AlignmentSegment", "src.alignment.segments:_SegmentPairWithConflict",
    "src.alignment.alignment_results:AlignmentResultRow.create", "src.workflow_coordinator_factory:WorkflowCoordinatorFactory.create",
    "src.correlation.optical_map:OpticalMap.getPositionsWithSiteIds",
]


def level1_unit(prop):
    return Unit(
        name="level1-Aligner.align", body=make_body(prop), configs=level1_configs,
        shard_depth=lambda cfg, tier: 24 if cfg["NP"] * cfg["KR"] * cfg["KQ"] >= 4 else None,
        functions=LEVEL1_FUNCTIONS,
        bounds="whole Aligner.align on K_R x K_Q labels with N seeds: quick 2x2/1, 3x2/1 and 2x2/1 as fragments with a label offset, 3x3/1, 2x1/2, "
               "2x2/2 and 2x1/3 (seed positions given in ascending or descending order); thorough 3x3/1, 4x3/1, 3x1/2, 2x2/2, 2x1/3 in any "
               "seed order, 3x2/2, 3x1/3, 2x2/3 with ascending seeds under the wall-clock budget (non-exhaustive if it ends first), plus 2x2/1, 3x2/1, "
               "2x1/2, 2x2/2 with coincident labels allowed; label "
               "coordinates, seed positions, perfectMatchScore, unmatchedPenalty <= 0, minScore > 0, breakSegmentThreshold >= 0, "
               "maxPairDistance >= 0 unbounded symbolic reals; distancePenaltyMultiplier in {1, 1/2, 2}; join multiplier in {1, 0}",
        nontrivial_rule="the returned candidate has at least one pair",
        assumptions=["labels strictly ascending; query trimmed (first label 0, length last+1) unless 'fragment'",
                     "seeds are arbitrary reals (superset of what FFT seeding produces)", "exact real arithmetic"],
        stubs=["observation only: resolveConflicts input and pairwise resolutions are recorded by wrappers that call the real methods"],
        outside=["maps/seed lists above the bound", "symbolic distancePenaltyMultiplier"],
    )
