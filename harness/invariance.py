"""Units shared by C09 (independence from worker count / run) and C10 (independence from other molecules and file order).

Process schedules cannot be executed symbolically.  Decided instead (DESIGN section 5, C09/C10):
  non-interference   the only state a per-query computation leaves behind in a worker (AlignerEngine.iteration) is made an arbitrary
                     symbolic integer; no branch and no output term of Aligner.align may mention it, the object graph of the aligner
                     is otherwise unchanged by a call, and a second call on the used aligner returns the same record;
  aggregation        the mode logic / filterOut / resolve / AlignmentResults.create give identical files for every order of the
                     queries (and of the references), and the records of one query are those of a run restricted to that query;
  selection          the per-query orchestration returns the same candidate whatever the order of the references, when seed scores
                     and candidate confidences are pairwise distinct.
Assumed library contract: p_imap returns results in input order; pickling round-trips the coordinator.
"""
import itertools
import os
import sys

from symx import And, Or, Not, Implies
from symx.runner import Unit

from harness import multipass, orchestration as orch, pipeline

COUNTER = "workerIterationCounter"


def graph_state(obj, prefix="aligner", seen=None, out=None):
    """primitive attributes reachable from the aligner through objects of the project's own classes"""
    if seen is None:
        seen, out = set(), {}
    if id(obj) in seen:
        return out
    seen.add(id(obj))
    for k, v in sorted(vars(obj).items()):
        path = f"{prefix}.{k}"
        if hasattr(v, "__dict__") and type(v).__module__.startswith("src."):
            graph_state(v, path, seen, out)
        else:
            out[path] = v
    return out


def body_noninterference(E, cfg):
    before = {}

    def prepare(aligner, ctx):
        it0 = E.int(COUNTER)
        aligner.alignmentEngine.iteration = it0
        E.watch(COUNTER)
        before.update(graph_state(aligner))
    ctx = pipeline.run_level1(E, cfg, prepare=prepare, repeat=True)
    if ctx["exc"] is not None:
        E.tag("exception-path")     # C07's subject
        E.check("checked", True)
        return ["exception", type(ctx["exc"]).__name__]
    row, row2 = ctx["row"], ctx["row2"]
    if row.alignedPairs:
        E.tag("nontrivial")
    if E.watch_hits:
        E.fail("a-branch-depends-on-the-worker-local-counter")
    nums = [row.confidence, row.queryStartPosition, row.queryEndPosition, row.referenceStartPosition, row.referenceEndPosition,
            row.queryLength, row.referenceLength]
    for s in row.segments:
        nums.append(s.segmentScore)
        for p in s.positions:
            nums.append(p.score)
    if any(E.mentions(x, COUNTER) for x in nums):
        E.fail("an-output-value-depends-on-the-worker-local-counter")
    after = graph_state(ctx["aligner"])
    changed = sorted(k for k in after if k not in before or (after[k] is not before[k] and not _same(after[k], before[k])))
    changed = [k for k in changed if not k.endswith("alignmentEngine.iteration") and "resolveConflicts" not in k]
    if changed or set(before) - set(after):
        E.fail("a-call-leaves-other-state-behind-in-the-worker:" + ",".join(changed)[:80])
    k1, k2 = multipass.rowkey(row), multipass.rowkey(row2)
    same_struct = k1 == k2 and row.cigarString == row2.cigarString and [len(s.positions) for s in row.segments] == [len(s.positions) for s in row2.segments]
    if not same_struct:
        E.fail("a-second-call-on-the-used-worker-returns-a-different-record")
    else:
        E.check("a-second-call-on-the-used-worker-returns-the-same-numbers", And(
            [row.confidence == row2.confidence, row.queryStartPosition == row2.queryStartPosition,
             row.queryEndPosition == row2.queryEndPosition, row.referenceStartPosition == row2.referenceStartPosition,
             row.referenceEndPosition == row2.referenceEndPosition]))
    return pipeline.summary(ctx)


def _same(a, b):
    try:
        r = (a == b)
        return r if isinstance(r, bool) else False
    except Exception:  # noqa
        return False


def noninterference_configs(tier):
    cfgs = []

    def add(KR, KQ, NP, revs=(False, True), **kw):
        for rev in revs:
            cfgs.append(dict(KR=KR, KQ=KQ, NP=NP, rev=rev, **kw))
    add(2, 2, 1)
    add(2, 1, 2, seed_order="asc")
    if tier != "quick":
        add(3, 2, 1)
        add(2, 2, 2, revs=(False,), seed_order="asc")
        add(2, 1, 3, revs=(True,), seed_order="asc", sj="0")
    return cfgs


def noninterference_unit():
    return Unit(name="worker-state-non-interference", body=body_noninterference, configs=noninterference_configs,
                functions=pipeline.LEVEL1_FUNCTIONS,
                shard_depth=lambda cfg, tier: 22 if cfg["NP"] * cfg["KR"] * cfg["KQ"] >= 4 else None,
                bounds="whole Aligner.align called twice on 2x2 labels / 1 seed and 2x1 / 2 seeds (thorough: 3x2/1, 2x2/2, 2x1/3), both strands, "
                       "AlignerEngine.iteration an arbitrary symbolic integer, everything else symbolic as in Level 1",
                nontrivial_rule="the record has at least one pair",
                assumptions=["the coordinator object graph is what a worker process holds (pickling round-trips it)"],
                stubs=["observation wrappers of Level 1"],
                outside=["OS scheduling, dill/pathos, --cpus: not explored"])


# ------------------------------------------------------------------------------------------------ aggregation

def body_aggregation(E, cfg):
    world = multipass.build_world(E, cfg)
    nq, nrefs = cfg["nq"], cfg.get("nrefs", 1)
    base = {}
    modes = cfg.get("modes", multipass.MODES)
    for mode in modes:
        base[mode] = multipass.run_mode(world, mode)
    if any(r["exc"] is not None for r in base.values()):
        E.tag("exception-path")
        E.check("checked", True)
        return ["exception"]
    if sum(len(r["main"]) for r in base.values()):
        E.tag("nontrivial")
    orders = [o for o in itertools.permutations(range(nq)) if list(o) != list(range(nq))]
    ref_orders = [o for o in itertools.permutations(range(nrefs)) if list(o) != list(range(nrefs))]
    variants = [(o, None) for o in orders] + [(None, ro) for ro in ref_orders]
    for order, ref_order in variants:
        for mode in modes:
            alt = multipass.run_mode(world, mode, order=order, ref_order=ref_order)
            name = "query" if order else "reference"
            if alt["exc"] is not None:
                E.fail(f"exception-with-permuted-{name}-order:{type(alt['exc']).__name__}")
                continue
            same = multipass.same_rows(E, alt["main"], base[mode]["main"])
            for k in set(alt["files"]) | set(base[mode]["files"]):
                same = And(same, multipass.same_rows(E, alt["files"].get(k, []), base[mode]["files"].get(k, [])))
            E.check(f"files-identical-for-every-{name}-order", same)
    if cfg.get("restrict") and nq == 2:
        for qi in range(nq):
            for mode in modes:
                alone = multipass.run_mode(world, mode, order=[qi])
                if alone["exc"] is not None:
                    E.fail("exception-in-restricted-run:" + type(alone["exc"]).__name__)
                    continue
                qid = world["queries"][qi].moleculeId
                same = multipass.same_rows(E, alone["main"], [r for r in base[mode]["main"] if r.queryId == qid])
                for k in set(alone["files"]) | set(base[mode]["files"]):
                    same = And(same, multipass.same_rows(E, alone["files"].get(k, []),
                                                         [r for r in base[mode]["files"].get(k, []) if r.queryId == qid]))
                E.check("records-of-a-query-equal-those-of-a-run-restricted-to-it", same)
    return multipass.summary(base)


# quick tier permutes in the modes 'all' (which writes the first-pass, second-pass and joined files, i.e. everything 'joined' and
# 'separate' write) and 'best'; thorough permutes in all four.
def aggregation_configs(restrict):
    def f(tier):
        modes = ["all", "best"] if tier == "quick" else list(multipass.MODES)
        cfgs = [dict(KR=6, KQ=6, nq=2, nrefs=1, first=["none", "start+", "end-"] if tier != "quick" else ["none", "start+"], second=["none", "continue+", "overlap+"], restrict=restrict, modes=modes),
                dict(KR=6, KQ=6, nq=1, nrefs=2, first=["start+", "end-"], second=["none", "continue+", "ref2+"], restrict=restrict, modes=modes)]
        cfgs.append(dict(KR=6, KQ=6, nq=2, nrefs=2, first=["start+", "ref2-start+"], second=["none", "continue+"], restrict=restrict, modes=modes))
        if tier != "quick":
            cfgs.append(dict(KR=6, KQ=6, nq=2, nrefs=2, first=["start+", "end+", "ref2-start+"], second=["none", "continue+", "ref2+"], restrict=restrict, swap_ids=True))
        return cfgs
    return f


def aggregation_unit(restrict):
    return Unit(name="aggregation-order-invariance", body=body_aggregation, configs=aggregation_configs(restrict),
                functions=multipass.MULTIPASS_FUNCTIONS, stubs=multipass.MULTIPASS_STUBS, bounds=multipass.MULTIPASS_BOUNDS +
                "; every permutation of the 2 queries / 2 references" + ("; runs restricted to one query" if restrict else ""),
                shard_depth=lambda cfg, tier: 10,
                nontrivial_rule="at least one record is written",
                assumptions=["per-query rows do not depend on the other queries (unit worker-state-non-interference and C07 orchestration)"],
                outside=["-qId/-rId filters and row order inside CMAP files (pandas isin/groupby)", "more than 2 queries/references"])


# ------------------------------------------------------------------------------------------------ selection

def body_selection(E, cfg):
    world = orch.make_world(E, cfg)
    q = world.queries[0]
    row, exc = orch.run_align(world, q)
    if exc is not None:
        E.tag("exception-path")
        E.check("checked", True)
        return ["exception"]
    seeds = orch.all_seeds(world, q.moleculeId)
    # the statement's scope: no exact ties between seed scores or candidate confidences
    for (_, a), (_, b) in itertools.combinations(seeds, 2):
        E.assume(Not(a.score == b.score))
    for a, b in itertools.combinations(list(world.rows.values()), 2):
        E.assume(Not(a.confidence == b.confidence))
    if len(seeds) >= 2:
        E.tag("nontrivial")
    saved = world.refs
    world.refs = list(reversed(saved))
    world.calls = []
    row2, exc2 = orch.run_align(world, q)
    world.refs = saved
    if exc2 is not None:
        E.fail("exception-with-reordered-references:" + type(exc2).__name__)
        return ["exception"]
    for a, b in itertools.combinations(list(world.rows.values()), 2):
        E.assume(Not(a.confidence == b.confidence))
    E.check("same-record-for-every-order-of-the-references", row is row2)
    return [None if row is None else (row.referenceId, row.orientation)]


def selection_unit():
    return Unit(name="reference-order-invariance-of-selection", body=body_selection,
                configs=lambda tier: [dict(initial_kinds=["empty", 1], refined_peaks=[1] if tier == "quick" else [0, 1],
                                           row_has_pairs=[True], nrefs=2, nq=1, peaksCount=k) for k in ((1, 2) if tier == "quick" else (1, 2, 3))],
                functions=orch.ORCH_FUNCTIONS, stubs=orch.ORCH_STUBS,
                bounds="2 references x 2 strands with 0..1 seed each (<= 4 seeds), peaksCount 1..2 (3 in thorough)",
                nontrivial_rule="the query has at least two seeds",
                assumptions=["seed scores pairwise distinct and candidate confidences pairwise distinct (exact ties make the stable sort "
                             "order observable; the statement excludes nothing about ties, so they are left outside the claim)"],
                outside=["exact ties", "real seeding"])


# ------------------------------------------------------------------------------------------------ completion order

def body_completion_order(E, cfg):
    world = orch.make_world(E, cfg)
    rows, exc = orch.run_execute(world)
    if exc is not None:
        E.tag("exception-path")
        E.check("checked", True)
        return ["exception", type(exc).__name__]
    got = [r.queryId for r in rows]
    order = [q.moleculeId for q in world.queries]
    if len(got) >= 2:
        E.tag("nontrivial")
    E.check("per-query-results-are-collected-in-submission-order-whatever-the-completion-order",
            got == [i for i in order if i in got])
    # --cpus is an arbitrary symbolic integer >= 1 on a second execute of the same coordinator over the same world (the stubbed
    # environment answers identically): the coordinator itself must not make the result depend on it
    cpus = E.int("cpus")
    E.assume(cpus >= 1)
    before = world.coord.args.numberOfCpus
    world.coord.args.numberOfCpus = cpus
    try:
        rows2, exc2 = orch.run_execute(world)
    finally:
        world.coord.args.numberOfCpus = before
    if exc2 is not None:
        E.fail("exception-for-another-value-of-cpus:" + type(exc2).__name__)
        return [got]
    E.check("same-records-for-every-value-of-cpus", len(rows) == len(rows2) and all(a is b for a, b in zip(rows, rows2)))
    return [got]


def completion_order_unit():
    return Unit(name="results-collected-in-submission-order", body=body_completion_order,
                configs=lambda tier: [dict(initial_kinds=["empty", 1], refined_peaks=[1], row_has_pairs=[True], nrefs=1, nq=2, peaksCount=1),
                                      dict(initial_kinds=[1], refined_peaks=[1], row_has_pairs=[True, False], nrefs=1, nq=3, peaksCount=1)],
                functions=orch.ORCH_FUNCTIONS, stubs=orch.ORCH_STUBS,
                bounds="2-3 queries, one reference; the parallel map the coordinator calls is modelled per its library contract (ordered for "
                       "p_imap/p_map, adversarially reversed for the unordered variants); a second execute with --cpus an unbounded symbolic integer >= 1",
                nontrivial_rule="at least two queries yield a record",
                assumptions=["p_tqdm contract: p_imap/p_map preserve input order"],
                outside=["real worker processes and their timing"])


# ------------------------------------------------------------------------------------------------ sequence generation keeps no state

def body_sequence_state(E, cfg):
    """two fragments of one query share molecule id and length but hold different labels: the bit vector of the second must be
    the function of its own labels (no per-process state keyed by id/length)"""
    from src.correlation.optical_map import OpticalMap
    from src.correlation.sequence_generator import SequenceGenerator
    res, radius, n = cfg["res"], cfg["radius"], cfg["n"]
    maps = []
    length = 100000     # concrete: a per-process cache would hash it
    for m in range(2):
        ks = []
        for i in range(n):
            k = E.int(f"frag{m}_bin{i}")
            E.assume(k >= 0 if i == 0 else k > ks[-1])
            ks.append(k)
        E.assume(ks[-1] < cfg["maxbins"])
        maps.append((ks, OpticalMap(7, length, [res * k for k in ks], shift=3 * m)))
    gen = SequenceGenerator(res, radius)
    try:
        first = [int(x) for x in maps[0][1].getSequence(gen, cfg["rev"])]
        second = [int(x) for x in maps[1][1].getSequence(gen, cfg["rev"])]
        again = [int(x) for x in maps[0][1].getSequence(gen, cfg["rev"])]
    except Exception as ex:  # noqa
        E.tag("exception-path")
        E.check("checked", True)
        return ["exception", type(ex).__name__]
    E.tag("nontrivial")

    def rule(bits, ks):
        fwd = bits[::-1] if cfg["rev"] else bits
        near = lambda i: Or([And(k - radius <= i, i <= k + radius) for k in ks])
        return And([near(i) if fwd[i] == 1 else Not(near(i)) for i in range(len(fwd))] + [ks[-1] == len(fwd) - 1])
    E.check("second-fragment's-vector-is-a-function-of-its-own-labels", rule(second, maps[1][0]))
    E.check("first-fragment's-vector-is-a-function-of-its-own-labels", rule(first, maps[0][0]))
    E.check("repeating-a-call-gives-the-same-vector", first == again)
    return [first, second]


def sequence_state_unit():
    return Unit(name="sequence-generation-keeps-no-process-state", body=body_sequence_state,
                configs=lambda tier: [dict(res=100, radius=r, n=n, maxbins=5 if tier == "quick" else 7, rev=rev)
                                      for r in (0, 1) for n in (1, 2) for rev in (False, True)],
                functions=["src.correlation.optical_map:OpticalMap.getSequence", "src.correlation.sequence_generator:SequenceGenerator.positionsToSequence",
                           "src.correlation.vectorise:vectorisePositions", "src.correlation.vectorise:blur"],
                bounds="two maps with the same molecule id and length (fragments of one query) of 1-2 labels on a resolution lattice, <= 5/7 bins, "
                       "blur radius 0..1, both strands",
                nontrivial_rule="every path",
                assumptions=["labels are multiples of the resolution"],
                outside=["the FFT correlation itself"])


# ------------------------------------------------------------------------------------------------ independence from the run (hash seed)

def body_hashseed(E, cfg):
    """NOT solver-decided beyond choosing the inputs: for the witness of every path of a small multi-pass scenario the four modes are run
    in two fresh interpreters with different PYTHONHASHSEED values; every file must come out identical, rows in the same order."""
    import json
    import subprocess
    from symx.runner import jsonable, VERIF, REPO
    world, res = multipass.run_all_modes(E, cfg)
    if any(r["exc"] is not None for r in res.values()):
        E.tag("exception-path")
        E.check("checked", True)
        return ["exception"]
    if E.symbolic:
        import hashlib
        h = int(hashlib.md5(repr(E.decision_vector()).encode()).hexdigest(), 16)
        if h % cfg["sample"] != 0:          # the interpreter start-up dominates: probe a deterministic sample of the paths
            E.tag("not-probed")
            E.check("checked", True)
            return ["not-probed"]
    E.tag("nontrivial")
    snap = E.snapshot() if E.symbolic else {"vars": dict(E.used), "choices": list(E.chs)}
    payload = json.dumps({"cfg": cfg, "snapshot": jsonable(snap)})
    outs = []
    for hs in cfg["hash_seeds"]:
        env = dict(os.environ, PYTHONHASHSEED=str(hs), COMA_REPO=REPO)
        env.pop("SYMX_TWIN", None)
        p = subprocess.run([sys.executable, "-B", os.path.join(VERIF, "tools", "hashseed_probe.py")], input=payload, capture_output=True,
                           text=True, env=env, timeout=120)
        outs.append(p.stdout.strip() if p.returncode == 0 else "probe failed: " + p.stderr[-300:])
    E.check("every-file-is-identical-under-different-hash-seeds", all(o == outs[0] for o in outs) and not outs[0].startswith("probe failed"))
    return [outs[0][:200]]


def hashseed_unit():
    return Unit(name="independence-from-the-hash-seed", body=body_hashseed, witness=False,
                configs=lambda tier: [dict(KR=6, KQ=6, nq=2, nrefs=2, first=["start+", "end-", "ref2-start+"], second=["none", "continue+"] if tier == "quick" else
                                           ["none", "continue+", "other-strand"], hash_seeds=[1, 2] if tier == "quick" else [1, 2, 3, 4], sample=24 if tier == "quick" else 6)],
                functions=multipass.MULTIPASS_FUNCTIONS, stubs=multipass.MULTIPASS_STUBS,
                bounds="NOT solver-decided: the witness of every 24th (thorough: 6th) path of a 2-query / 2-reference multi-pass scenario, four modes, run in separate "
                       "interpreters with PYTHONHASHSEED 1 and 2 (thorough: 1..4); files compared row by row",
                nontrivial_rule="every path",
                assumptions=["sampled confirmation: only hash-seed dependence that shows on these witnesses is seen"],
                outside=["everything else about repeated runs"])
