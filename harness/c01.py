"""C01 -- see harness/pipeline.py (Level 1: whole Aligner.align on tiny symbolic maps)."""
from harness import pipeline, level2, multipass


def units(prop):
    return [pipeline.level1_unit(prop), level2.level2_unit(prop), level2.pair_unit(prop), multipass.multipass_unit(prop)]
