"""C02 -- record fields agree with the listed pairs and with the input maps.

Real code executed: OpticalMap.trim, OpticalMap.getPositionsWithSiteIds (both strands, fragment shift), AlignmentResultRow.create,
AlignmentResultRow.getUnalignedFragments, AlignmentResults.resolve / AlignmentResultRow.resolve (joined record),
AlignmentResults.create, XmapReader.writeAlignments through the real pandas writer.  Numbers reach the text as marker tokens
(@@n:spec@@) that map back to the symbolic term and record the format spec; an independent parser of the produced text feeds the
oracle.  Input: an *untrimmed* symbolic query (first label at an arbitrary offset), a reference, a first-pass row (menu of valid
matchings, one or two segments, both strands), the second-pass row of a real fragment, and their joined record when the real
code joins them.
"""
import io
import re
from fractions import Fraction

from symx import And, Or, Not, Implies
from symx.runner import Unit

from harness import multipass
from harness.pipeline import make_args, ascending
from src.alignment.alignment_position import AlignedPair, ScoredAlignedPair
from src.alignment.alignment_results import AlignmentResultRow, AlignmentResults
from src.alignment.segment_with_resolved_conflicts import AlignmentSegmentsWithResolvedConflicts
from src.alignment.segments import AlignmentSegment
from src.correlation.optical_map import OpticalMap
from src.correlation.peak import Peak
from src.parsers.xmap_reader import XmapReader

FIRST = {  # name: (reverse, [(refLabels, qryLabels) per segment]) with KQ filled in
    "fwd-start": (False, lambda KR, KQ: [([1, 2, 3], [1, 2, 3])]),
    "fwd-two-segments": (False, lambda KR, KQ: [([1, 2], [1, 2]), ([4, 5], [3, 5])]),
    "rev-end": (True, lambda KR, KQ: [([1, 2, 3], [KQ, KQ - 1, KQ - 2])]),
    "rev-two-segments": (True, lambda KR, KQ: [([1, 3], [KQ, KQ - 2]), ([4, 5], [KQ - 3, KQ - 4])]),
    "fwd-middle": (False, lambda KR, KQ: [([2, 3], [3, 4])]),
    "rev-middle": (True, lambda KR, KQ: [([2, 3], [4, 3])]),
}
SECOND = {
    "none": None,
    "fwd-tail": (False, lambda KR, KQ: [([KR - 1, KR], [KQ - 1, KQ])]),
    "rev-head": (True, lambda KR, KQ: [([KR - 1, KR], [2, 1])]),
    "fwd-overlap": (False, lambda KR, KQ: [([3, 4, 5], [3, 4, 5])]),
}


def mkrow_multi(E, R, Qmap, rev, segspec, tag, alignedRest=False):
    rp = {p.siteId: p for p in R.getPositionsWithSiteIds()}
    qp = {p.siteId: p for p in Qmap.getPositionsWithSiteIds(rev)}
    segs = []
    for si, (ridx, qidx) in enumerate(segspec):
        if not all(i in rp for i in ridx) or not all(j in qp for j in qidx):
            return None
        seed = E.real(f"seed_{tag}_{si}")
        pos = []
        for k, (i, j) in enumerate(zip(ridx, qidx)):
            sc = E.real(f"score_{tag}_{si}_{k}")
            E.assume(sc > 0)
            pos.append(ScoredAlignedPair(AlignedPair(rp[i], qp[j], qp[j].position - (rp[i].position - seed), 1), sc))
        segs.append(AlignmentSegment.create(pos, Peak(seed, 30.), pos))
    row = AlignmentResultRow.create(AlignmentSegmentsWithResolvedConflicts(segs), Qmap.moleculeId, R.moleculeId, Qmap.length,
                                    R.length, rev)
    return row.setAlignedRest(True) if alignedRest else row


def parse_xmap(text):
    """independent parser: header-named columns -> list of dict(column -> cell text)"""
    names = None
    records = []
    for line in text.split("\n"):
        if line.startswith("#h"):
            names = re.split(r"\s+", line.strip())[1:]
        elif line and not line.startswith("#"):
            cells = line.split("\t")
            if names is None or len(cells) != len(names):
                return None
            records.append(dict(zip(names, cells)))
    return records


def cell_is(E, text, expected, spec):
    """the numeric cell `text` was produced from a value equal to `expected` with format `spec`"""
    if E.symbolic and text in E.markers:
        x, sp = E.markers[text]
        if sp != spec:
            return False
        return x == expected
    try:
        return text == format(expected, spec)
    except (TypeError, ValueError):
        return False


def body(E, cfg):
    KR, KQ = cfg["KR"], cfg["KQ"]
    r = ascending(E, "r", KR, first_ge=0)
    qraw = ascending(E, "q", KQ, first_ge=0)        # untrimmed: first label at an arbitrary offset
    qrawlen = E.real("qlen_in_file")
    E.assume(qrawlen >= qraw[-1])
    reflen = E.real("reflen")
    E.assume(reflen >= r[-1])
    R = OpticalMap(3, reflen, list(r))
    Q = OpticalMap(11, qrawlen, list(qraw)).trim()
    if cfg["first"] == "any":
        # any valid matching of 1..3 pairs over the first 4 reference / 5 query labels, in one segment or split in two
        rev = cfg["rev"]
        m = E.choose([1, 2, 3], "pairs")
        ridx = [E.choose(range(1, 5), "ref-label")]
        qidx = [E.choose(range(1, 6), "qry-label")]
        for _ in range(m - 1):
            ridx.append(E.choose(range(ridx[-1] + 1, 5), "ref-label"))
            qidx.append(E.choose(range(1, qidx[-1]) if rev else range(qidx[-1] + 1, 6), "qry-label"))
        cut = E.choose(range(0, m), "segment-split")
        segspec = [(ridx, qidx)] if cut == 0 else [(ridx[:cut], qidx[:cut]), (ridx[cut:], qidx[cut:])]
        spec = lambda KR_, KQ_: segspec
    else:
        rev, spec = FIRST[cfg["first"]]
    rows = []
    F = mkrow_multi(E, R, Q, rev, spec(KR, KQ), "F")
    if F is None:
        return ["first-pass pattern does not fit"]
    rows.append(F)
    sec = SECOND[cfg["second"]]
    try:
        frags = F.getUnalignedFragments([Q])
    except Exception as ex:  # noqa
        E.fail("exception-in-getUnalignedFragments:" + type(ex).__name__)
        return ["exception", type(ex).__name__]
    S = None
    if sec is not None and frags:
        frag = frags[E.choose(range(len(frags)), "fragment")]
        S = mkrow_multi(E, R, frag, sec[0], sec[1](KR, KQ), "S", alignedRest=True)
        if S is not None:
            rows.append(S)
            E.tag("second-pass-record")
            maxDiff = E.real("maxDifference")
            E.assume(maxDiff >= 0)
            try:
                joined, _ = AlignmentResults.resolve([F, S], maxDiff)
            except Exception as ex:  # noqa
                E.fail("exception-in-resolve:" + type(ex).__name__)
                return ["exception", type(ex).__name__]
            if joined:
                E.tag("joined-record")
            rows.extend(j for j in joined if j.alignedPairs)
    out = io.StringIO()
    try:
        XmapReader().writeAlignments(out, AlignmentResults("r.cmap", "q.cmap", rows), make_args(outputMode="best"))
    except Exception as ex:  # noqa
        E.fail("exception-in-writer:" + type(ex).__name__)
        return ["exception", type(ex).__name__]
    text = out.getvalue()
    recs = parse_xmap(text)
    E.check("text-parses-with-header-named-columns", recs is not None and len(recs) == len(rows))
    if recs is None or len(recs) != len(rows):
        return [text if not E.symbolic else E.concretize(text)]
    E.tag("nontrivial")
    first, last = qraw[0], qraw[-1]
    for n, rec in enumerate(recs):
        E.check("XmapEntryID-counts-1-2-3", rec["XmapEntryID"] == str(n + 1))
        E.check("ids-name-the-input-maps", rec["QryContigID"] == "11" and rec["RefContigID"] == "3")
        E.check("orientation-is-plus-or-minus", rec["Orientation"] in ("+", "-"))
        minus = rec["Orientation"] == "-"
        pairs = [(int(a), int(b)) for a, b in re.findall(r"\((\d+),(\d+)\)", rec["Alignment"])]
        wellformed = "".join(f"({a},{b})" for a, b in pairs) == rec["Alignment"] and len(pairs) >= 1
        E.check("alignment-column-well-formed", wellformed)
        inrange = all(1 <= a <= KR and 1 <= b <= KQ for a, b in pairs)
        E.check("label-numbers-refer-to-the-whole-maps", inrange)
        if not (wellformed and inrange):
            continue
        E.check("RefLen-is-the-reference-length", cell_is(E, rec["RefLen"], reflen, ".1f"))
        E.check("QryLen-is-last-minus-first-label-plus-1", cell_is(E, rec["QryLen"], last - first + 1, ".1f"))
        E.check("RefStartPos-is-the-first-listed-reference-label", cell_is(E, rec["RefStartPos"], r[pairs[0][0] - 1], ".1f"))
        E.check("RefEndPos-is-the-last-listed-reference-label", cell_is(E, rec["RefEndPos"], r[pairs[-1][0] - 1], ".1f"))
        lowq = min(b for _, b in pairs)
        highq = max(b for _, b in pairs)
        if not minus:
            E.check("QryStartPos(+)-is-offset-of-lowest-aligned-label-from-first-label",
                    cell_is(E, rec["QryStartPos"], qraw[lowq - 1] - first, ".1f"))
            E.check("QryEndPos(+)-is-offset-of-highest-aligned-label-from-first-label",
                    cell_is(E, rec["QryEndPos"], qraw[highq - 1] - first, ".1f"))
        else:
            E.check("QryStartPos(-)-is-offset-of-lowest-aligned-label-from-last-label",
                    cell_is(E, rec["QryStartPos"], last - qraw[lowq - 1], ".1f"))
            E.check("QryEndPos(-)-is-offset-of-highest-aligned-label-from-last-label",
                    cell_is(E, rec["QryEndPos"], last - qraw[highq - 1], ".1f"))
        E.check("orientation-agrees-with-the-query-label-direction",
                len(pairs) < 2 or all(((b > d) if minus else (b < d)) for (_, b), (_, d) in zip(pairs, pairs[1:])))
        E.check("LabelChannel-and-AlignedRest-cells", rec["LabelChannel"] == "1" and rec["AlignedRest"] in ("True", "False"))
        E.check("Confidence-cell-is-the-row-confidence", cell_is(E, rec["Confidence"], rows[n].confidence, ".2f"))
    return [E.concretize(text) if E.symbolic else text]


def configs(tier):
    cfgs = []
    for f in FIRST:
        for s in SECOND:
            cfgs.append(dict(KR=6, KQ=6, first=f, second=s))
    for f in ("fwd-middle", "rev-middle", "fwd-start", "rev-end"):
        for s in ("fwd-tail", "rev-head", "fwd-overlap"):
            cfgs.append(dict(KR=6, KQ=10, first=f, second=s))
    if tier != "quick":
        for f in FIRST:
            cfgs.append(dict(KR=7, KQ=12, first=f, second="fwd-tail"))
        for rev in (False, True):
            for s in SECOND:
                cfgs.append(dict(KR=6, KQ=6, first="any", rev=rev, second=s))
            cfgs.append(dict(KR=6, KQ=11, first="any", rev=rev, second="fwd-tail"))
    return cfgs


def units(prop):
    return [Unit(
        name="row-header-and-writer", body=body, configs=configs,
        functions=["src.correlation.optical_map:OpticalMap.trim", "src.correlation.optical_map:OpticalMap.getPositionsWithSiteIds",
                   "src.alignment.alignment_results:AlignmentResultRow.create", "src.alignment.alignment_results:AlignmentResultRow.getUnalignedFragments",
                   "src.alignment.alignment_results:AlignmentResults.resolve", "src.alignment.alignment_results:AlignmentResultRow.resolve",
                   "src.parsers.xmap_reader:XmapReader.writeAlignments"],
        bounds="reference of 6 labels, untrimmed query of 6 and 10 labels, all coordinates / lengths / seeds / scores unbounded "
               "symbolic reals; first-pass record from 6 patterns (1-2 segments, both strands, start / middle / end of the molecule); "
               "second-pass record on a fragment returned by the real getUnalignedFragments; joined record when the real resolve joins; "
               "<= 3 records per file",
        nontrivial_rule="a file with at least one record is written and parsed",
        assumptions=["generated rows are valid matchings (C01)", "pair scores > 0"],
        stubs=["numbers are rendered as marker tokens through the real pandas writer (format spec recorded; digits not produced)"],
        outside=["decimal rendering of the numbers (C code)", "CMAP parsing (pandas)", "more than 3 records"],
        shard_depth=lambda cfg, tier: 6,
    )]
