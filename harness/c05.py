"""C05 -- at most one record per query: the best-scoring candidate, in query-id order.

Units: filterOutSubsequentAlignmentsForSingleQuery on symbolic rows; the per-query orchestration (harness/orchestration.py) --
candidates come from the peaksCount highest-scoring seeds and the best candidate is returned; the mode logic
(harness/multipass.py).
"""
from symx import And, Or, Not, Implies
from symx.runner import Unit

from harness import multipass, orchestration as orch
from src.alignment.alignment_results import AlignmentResults, AlignmentResultRow


def body_filter(E, cfg):
    n = cfg["n"]
    rows = []
    for i in range(n):
        qid = E.int(f"queryId{i}")
        conf = E.real(f"confidence{i}")
        rows.append(AlignmentResultRow([], qid, 1, 10, 10, 0, 0, 0, 0, False, conf))
    try:
        out = AlignmentResults.filterOutSubsequentAlignmentsForSingleQuery(list(rows)) if not cfg.get("via_create") else \
            AlignmentResults.create("r", "q", list(rows)).rows
    except Exception as ex:  # noqa
        E.fail("exception:" + type(ex).__name__)
        return ["exception", type(ex).__name__]
    if n >= 2:
        E.tag("nontrivial")
    idx = []
    for o in out:
        k = [i for i, r in enumerate(rows) if r is o]
        if len(k) != 1:
            E.fail("result-rows-are-input-rows")
            return ["foreign-row"]
        idx.append(k[0])
    E.check("no-row-twice", len(set(idx)) == len(idx))
    E.check("query-ids-strictly-ascending-(one-row-per-query)", And([a.queryId < b.queryId for a, b in zip(out, out[1:])]))
    E.check("every-query-keeps-a-row-of-maximal-confidence",
            And([Or([And(o.queryId == r.queryId, o.confidence >= r.confidence) for o in out]) for r in rows]))
    return [idx]


def body_orch(E, cfg):
    world = orch.make_world(E, cfg)
    q = world.queries[0]
    row, exc = orch.run_align(world, q)
    if exc is not None:
        E.tag("exception-path")      # reported by C07, not a C05 clause
        E.check("checked", True)
        return ["exception", type(exc).__name__]
    seeds = orch.all_seeds(world, q.moleculeId)
    calls = [k for (qid, k) in world.calls if qid == q.moleculeId]
    if len(seeds) >= 2:
        E.tag("nontrivial")
    E.check("candidates-at-most-peaksCount", len(calls) <= world.peaksCount and len(calls) == min(world.peaksCount, len(seeds)))
    E.check("one-candidate-per-selected-seed", len(set(calls)) == len(calls) and all(k is not None and k[:4] in [s[0] for s in seeds] for k in calls))
    used = [p for (k, p) in seeds if k in [c[:4] for c in calls if c]]
    unused = [p for (k, p) in seeds if k not in [c[:4] for c in calls if c]]
    E.check("candidates-come-from-the-highest-scoring-seeds", And([u.score >= v.score for u in used for v in unused]))
    cands = [world.rows[k] for k in calls]
    if not cands:
        E.check("no-seed-no-record", row is None)
    else:
        E.check("returned-row-is-a-candidate", any(row is c for c in cands))
        if any(row is c for c in cands):
            E.check("returned-row-has-the-highest-confidence", And([row.confidence >= c.confidence for c in cands]))
    if cands:
        E.check("candidate-message-lists-every-candidate", len(world.messages) == 1 and len(world.messages[-1].messages) == len(cands))
    # the coordinator's execute keeps exactly the best candidates that have at least one pair, in query order
    world.calls = []
    rows, exc2 = orch.run_execute(world)
    if exc2 is not None:
        E.tag("exception-path")
    else:
        expected = []
        for qm in world.queries:
            world.calls = []
            best, _ = orch.run_align(world, qm)
            if best is not None and best.alignedPairs:
                expected.append(best)
        E.check("execute-returns-each-query's-best-candidate-iff-it-has-a-pair",
                len(rows) == len(expected) and all(a is b for a, b in zip(rows, expected)))
    return [[list(k) for k in calls], None if row is None else row.confidence]


def units(prop):
    return [
        Unit(name="filterOutSubsequentAlignmentsForSingleQuery", body=body_filter,
             configs=lambda tier: [{"n": k} for k in range(0, (5 if tier == "quick" else 8))] + [{"n": 3, "via_create": True}],
             functions=["src.alignment.alignment_results:AlignmentResults.filterOutSubsequentAlignmentsForSingleQuery",
                        "src.alignment.alignment_results:AlignmentResults.create"],
             shard_depth=lambda cfg, tier: 8 if cfg["n"] >= 5 else None,
             bounds="0..4 (quick) / 0..5 (thorough) rows with unbounded symbolic integer query ids and real confidences",
             nontrivial_rule="at least two rows", outside=["more than 5 rows"]),
        Unit(name="per-query-orchestration", body=body_orch, configs=orch.orch_configs, functions=orch.ORCH_FUNCTIONS, stubs=orch.ORCH_STUBS,
             bounds="1-2 references x 2 strands, 0..2 seeds per (reference, strand) with symbolic scores and positions, peaksCount 1..3 "
                    "(0 in thorough), 0..1 refined peaks per seed, candidate rows with symbolic Confidence",
             nontrivial_rule="the query has at least two seeds",
             assumptions=["ties between seed scores / confidences: any maximal choice is accepted"],
             outside=["real seeding (scipy)", "more than 2 references"]),
        multipass.multipass_unit(prop),
    ]
