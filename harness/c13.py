"""C13 -- segments are maximal positive-scoring runs that respect both thresholds.

Real code executed: AlignmentSegmentsFactory.getSegments -> _AlignmentSegmentBuilder.getSegments (+ AlignmentSegment.create)
on n scored positions of the real classes; scores, minScore and breakSegmentThreshold are unbounded symbolic reals.
"""
from symx import And, Or, Not, Implies
from symx.runner import Unit

from src.alignment.alignment_position import ScoredAlignedPair, AlignedPair, ScoredNotAlignedPosition, \
    NotAlignedReferencePosition
from src.alignment.segments_factory import AlignmentSegmentsFactory
from src.alignment.segments import EmptyAlignmentSegment
from src.correlation.optical_map import PositionWithSiteId
from src.correlation.peak import Peak


def prefix_sums(scores, a, b):
    out, s = [], 0
    for k in range(a, b):
        s = s + scores[k]
        out.append(s)
    return out


def qualifies(scores, a, b, minScore, thr):
    """run [a,b) satisfies every per-run clause of the statement (without maximality)"""
    P = prefix_sums(scores, a, b)
    T = P[-1]
    cl = [T >= minScore]
    for k, p in enumerate(P):
        cl.append(p > 0)
        for j in range(k):
            cl.append(p > P[j] - thr)
        if k < len(P) - 1:
            cl.append(p < T)
    return And(cl)


def body(E, cfg):
    n = cfg["n"]
    scores = [E.real(f"s{i}") for i in range(n)]
    minScore = E.real("minScore")
    thr = E.real("breakSegmentThreshold")
    E.assume(minScore > 0)
    E.assume(thr >= 0)
    if cfg.get("bound"):        # bounded values: code that needs machine numbers (int(), range(), indexing) is enumerated, not lost
        for v in scores + [minScore, thr]:
            E.assume(v >= -cfg["bound"])
            E.assume(v <= cfg["bound"])
    positions = []
    for i, s in enumerate(scores):
        if cfg.get("unpaired") and i in cfg["unpaired"]:
            E.assume(s <= 0)
            positions.append(ScoredNotAlignedPosition(NotAlignedReferencePosition(PositionWithSiteId(i + 1, 100 * i)), s))
        else:
            positions.append(ScoredAlignedPair(
                AlignedPair(PositionWithSiteId(i + 1, 100 * i), PositionWithSiteId(i + 1, 100 * i)), s))
    peak = Peak(0, 1.)
    try:
        segments = AlignmentSegmentsFactory(minScore, thr).getSegments(positions, peak)
    except Exception as ex:  # noqa
        E.fail("exception:" + type(ex).__name__)
        return ["exception", type(ex).__name__]

    index = {id(p): i for i, p in enumerate(positions)}
    spans = []
    structural_ok = True
    for seg in segments:
        if not seg.positions:
            spans.append(None)
            continue
        idx = [index.get(id(p)) for p in seg.positions]
        if None in idx or idx != list(range(idx[0], idx[-1] + 1)):
            structural_ok = False  # not a contiguous run of the input list
            break
        spans.append((idx[0], idx[-1] + 1))
    E.check("contiguous-runs-of-input", structural_ok)
    if not structural_ok:
        return ["bad-structure"]
    real = [s for s in spans if s is not None]
    if real:
        E.tag("nontrivial")
        E.check("no-empty-segment-among-results", all(s is not None for s in spans))
        E.check("disjoint-in-order-separated", all(b[0] > a[1] for a, b in zip(real, real[1:])))
        for seg, (a, b) in zip([s for s in segments if s.positions], real):
            P = prefix_sums(scores, a, b)
            T = P[-1]
            E.check("starts-and-ends-positive", And(scores[a] > 0, scores[b - 1] > 0))
            E.check("score-is-sum-and-at-least-minScore", And(seg.segmentScore == T, T >= minScore))
            cl = []
            for k, p in enumerate(P):
                cl.append(p > 0)
                for j in range(k):
                    cl.append(p > P[j] - thr)
            E.check("prefix-sums-positive-and-above-break-threshold", And(cl))
            E.check("ends-at-first-maximum", And([p < T for p in P[:-1]]))
            ext = []
            s = T
            later = []
            for e in range(b, n):
                s = s + scores[e]
                ext.append(Implies(s > T, Or([Or(p <= 0, p <= T - thr) for p in later])))
                later.append(s)
            E.check("no-admissible-right-extension-scores-higher", And(ext))
    else:
        if n > 0:
            if E.possible(Or([scores[i] >= minScore for i in range(n)])) is not False:
                pass
            E.tag("nontrivial" if n >= 2 else "trivial")
        E.check("single-empty-segment", len(segments) == 1 and isinstance(segments[0], EmptyAlignmentSegment)
                and segments[0].peak is peak)
        E.check("empty-only-if-no-run-qualifies",
                Not(Or([qualifies(scores, a, b, minScore, thr) for a in range(n) for b in range(a + 1, n + 1)])))
    return [[list(s) if s else None for s in spans], [seg.segmentScore for seg in segments]]


def classify(cfg, snap, failures, out):
    return None


def configs(tier):
    top = 6 if tier == "quick" else 10
    cfgs = [{"n": k} for k in range(0, top + 1)]
    cfgs.append({"n": 4, "unpaired": [1, 2]})
    cfgs.append({"n": 3, "bound": 2})
    return cfgs


def shard_depth(cfg, tier):
    return 12 if cfg["n"] >= 6 else None


def units(prop):
    return [Unit(
        name="getSegments",
        body=body, configs=configs, shard_depth=shard_depth, classify=classify,
        functions=["src.alignment.segments_factory:AlignmentSegmentsFactory.getSegments",
                   "src.alignment.segments_factory:_AlignmentSegmentBuilder",
                   "src.alignment.segments:AlignmentSegment.create"],
        bounds="n scored positions, n = 0..6 (quick) / 0..10 (thorough, n = 10 under the wall-clock budget); every score, minScore > 0 and "
               "breakSegmentThreshold >= 0 are unbounded symbolic reals; one extra configuration with 3 positions and all values in [-2, 2] "
               "(there, code that asks for a machine number is enumerated by realisation instead of becoming inconclusive)",
        nontrivial_rule="path returns >= 1 non-empty segment, or returns the empty result for a list of >= 2 positions",
        assumptions=["minScore > 0 (constructor rejects otherwise)", "breakSegmentThreshold >= 0",
                     "scores are exact reals (IEEE rounding not modelled)"],
        outside=["lists longer than the bound"],
    )]
