"""Multi-pass orchestration harness: the real _MultiPassWorkflowCoordinator.execute (mode logic, real getUnalignedFragments,
filterOutSubsequentAlignmentsForSingleQuery, AlignmentResults.resolve / check_overlap / AlignmentResultRow.resolve,
saveAdditionalOutput) and AlignmentResults.create, run in the four multi-pass modes on the same symbolic first-pass and
second-pass rows.

Environment stub: _WorkflowCoordinator.execute (seeding + per-query alignment, covered by Level 1 and the C05/C07
orchestration unit) is replaced by a generator that returns, for every query / fragment it is given, either nothing or a row
built with the real classes over the real label numbering of that map (OpticalMap.getPositionsWithSiteIds, incl. the
fragment's shift); label coordinates, seeds and pair scores are symbolic.  The injected xmapReader captures the rows of the
additional files.
"""
import types

from symx import And, Or, Not, Implies
from symx.runner import Unit

from harness.pipeline import make_args, ascending, valid_matching
from src.alignment.alignment_position import AlignedPair, ScoredAlignedPair, ScoredNotAlignedPosition, \
    NotAlignedReferencePosition, NotAlignedQueryPosition
from src.alignment.alignment_results import AlignmentResultRow, AlignmentResults
from src.alignment.segment_with_resolved_conflicts import AlignmentSegmentsWithResolvedConflicts
from src.alignment.segments import AlignmentSegment
from src.correlation.optical_map import OpticalMap
from src.correlation.peak import Peak
from src.extensions.dispatcher import Dispatcher
from src.workflow_coordinator import _WorkflowCoordinator
from src.workflow_coordinator_factory import WorkflowCoordinatorFactory

MODES = ("joined", "all", "separate", "best")


class CapReader:
    def __init__(self):
        self.files = {}

    def writeAlignments(self, file, results, args):
        self.files[file] = list(results.rows)


def mkrow(E, R, Qmap, rev, ridx, qidx, tag, su):
    """row over reference labels ridx (1-based numbers) and query label numbers qidx; nested lists give several segments"""
    if ridx and isinstance(ridx[0], list):
        rows = [mkrow(E, R, Qmap, rev, a, b, f"{tag}g{k}", su) for k, (a, b) in enumerate(zip(ridx, qidx))]
        if any(r is None for r in rows):
            return None
        segs = [r.segments[0] for r in rows]
        return AlignmentResultRow.create(AlignmentSegmentsWithResolvedConflicts(segs), Qmap.moleculeId, R.moleculeId, Qmap.length,
                                         R.length, rev)
    rp = {p.siteId: p for p in R.getPositionsWithSiteIds()}
    qp = {p.siteId: p for p in Qmap.getPositionsWithSiteIds(rev)}
    if qidx and qidx[0] < 0:        # labels given relative to the end of this map / fragment (its own numbering, whatever its shift)
        ids = sorted(qp)
        if len(ids) < -min(qidx):
            return None
        qidx = [ids[k] for k in qidx]
        if rev:
            qidx = sorted(qidx, reverse=True)
    if not all(i in rp for i in ridx) or not all(j in qp for j in qidx):
        return None
    seed = E.real(f"seed_{tag}")
    positions = []
    prev = None
    for k, (i, j) in enumerate(zip(ridx, qidx)):
        if prev is not None:    # labels skipped between two pairs are listed as unpaired
            for x in range(prev[0] + 1, i):
                positions.append(ScoredNotAlignedPosition(NotAlignedReferencePosition(rp[x]), su))
            step = -1 if rev else 1
            for y in range(prev[1] + step, j, step):
                if y in qp:
                    positions.append(ScoredNotAlignedPosition(NotAlignedQueryPosition(qp[y], seed), su))
        sc = E.real(f"score_{tag}_{k}")
        E.assume(sc > 0)
        positions.append(ScoredAlignedPair(AlignedPair(rp[i], qp[j], qp[j].position - (rp[i].position - seed), 1), sc))
        prev = (i, j)
    seg = AlignmentSegment.create(positions, Peak(seed, 30.), positions)
    return AlignmentResultRow.create(AlignmentSegmentsWithResolvedConflicts([seg]), Qmap.moleculeId, R.moleculeId,
                                     Qmap.length, R.length, rev)


def first_pass_menu(KR, KQ, nrefs=1):
    """name -> (refIndex, reverse, reference labels, query labels) -- valid matchings; None = the query does not align"""
    m = {"none": None,
         "start+": (0, False, [1, 2, 3], [1, 2, 3]),                       # aligned part at the molecule start
         "end-": (0, True, [1, 2, 3], [KQ, KQ - 1, KQ - 2]),               # reverse strand, molecule end on the reference start
         "end+": (0, False, [KR - 2, KR - 1, KR], [KQ - 2, KQ - 1, KQ]),   # aligned part at the molecule end
         "middle-skip+": (0, False, [2, 4], [2, 3]),                       # middle, with skipped labels
         "start-gap+": (0, False, [1, 2, 4], [1, 2, 4]),                   # label 3 left unpaired on both maps
         "two-segments+": (0, False, [[1, 2], [3, 4]], [[1, 2], [3, 4]])}  # a first-pass record chained from two segments
    if KQ >= 10:
        m["mid-long+"] = (0, False, [3, 4], [5, 6])                        # middle of a long molecule: both flanks become fragments
        m["mid-long-"] = (0, True, [3, 4], [6, 5])
        m["near-start+"] = (0, False, [2, 3], [3, 4])                      # only the right flank is long enough
        m["near-end+"] = (0, False, [4, 5], [7, 8])                        # only the left flank is long enough
    if nrefs > 1:
        m["ref2-start+"] = (1, False, [1, 2, 3], [1, 2, 3])
    return m


def second_pass_menu(KR, KQ, nrefs):
    m = {"none": None,
         "continue+": (0, False, [KR - 1, KR], [KQ - 1, KQ]),      # continuation on the same reference / strand
         "overlap+": (0, False, [3, 4, 5], [3, 4, 5]),             # overlaps a first-pass row ending at (3,3)
         "other-strand": (0, True, [KR - 1, KR], [2, 1]),
         "far-crossing+": (0, False, [1, 2], [KQ - 1, KQ]),
         "head+": (0, False, [1, 2], [1, 2]),                      # head of the molecule (left fragment)
         "tail-": (0, True, [1, 2], [KQ, KQ - 1]),
         "fragment-tail+": (0, False, [KR - 1, KR], [-2, -1]),     # the fragment's own last two labels (whatever numbers its shift gives)
         "crossing-shared+": (0, False, [1, 2], [4, 5]),           # crosses a first-pass row (2,3)(3,4) and shares labels with it
         "overlap-fill+": (0, False, [2, 3, 4, 5], [2, 3, 4, 5]),  # pairs label 3 that 'start-gap+' left unpaired: interior merge point
         "two-segments-tail+": (0, False, [[4, 5], [6]], [[4, 5], [6]])}   # a second-pass record chained from two segments
    if nrefs > 1:
        m["ref2+"] = (1, False, [KR - 1, KR], [KQ - 1, KQ])
    return m


def any_row(E, KR, KQ, rev, label, qlabels=None, max_pairs=3):
    """engine-chosen valid matching: 1..max_pairs pairs, ascending reference labels, monotone query labels, optionally two segments"""
    m = E.choose(list(range(1, max_pairs + 1)), f"{label}-pairs")
    qs = qlabels if qlabels is not None else list(range(1, KQ + 1))
    ridx = [E.choose(range(1, KR + 1), f"{label}-ref")]
    qpos = [E.choose(range(len(qs)), f"{label}-qry")]
    for _ in range(m - 1):
        ridx.append(E.choose(range(ridx[-1] + 1, KR + 1), f"{label}-ref"))
        qpos.append(E.choose(range(0, qpos[-1]) if rev else range(qpos[-1] + 1, len(qs)), f"{label}-qry"))
    qidx = [qs[k] for k in qpos]
    cut = E.choose(range(0, m), f"{label}-split")
    if cut:
        return (0, rev, [ridx[:cut], ridx[cut:]], [qidx[:cut], qidx[cut:]])
    return (0, rev, ridx, qidx)


def build_world(E, cfg):
    KR, KQ, nq, nrefs = cfg["KR"], cfg["KQ"], cfg["nq"], cfg.get("nrefs", 1)
    refs = []
    for k in range(nrefs):
        r = ascending(E, f"ref{k}_", KR, first_ge=0)
        refs.append(OpticalMap(k + 1, r[-1] + 10, list(r)))
    queries = []
    for k in range(nq):
        q = ascending(E, f"qry{k}_", KQ, first_eq=0)
        queries.append(OpticalMap(7 + k, q[-1] + 1, list(q)))
    if cfg.get("swap_ids"):
        queries = [OpticalMap(7 + nq - 1 - k, m.length, m.positions) for k, m in enumerate(queries)]
    su = E.real("unmatchedPenalty")
    E.assume(su <= 0)
    maxDiff = E.real("maxDifference")
    E.assume(maxDiff >= 0)
    fp_menu = first_pass_menu(KR, KQ, nrefs)
    sp_menu = second_pass_menu(KR, KQ, nrefs)
    allowed_f = [n for n in cfg.get("first", list(fp_menu)) if n in fp_menu]
    allowed_s = [n for n in cfg.get("second", list(sp_menu)) if n in sp_menu]
    first_choice = {}
    for qm in queries:
        name = E.choose(allowed_f + [n for n in cfg.get("first", []) if n in ("any+", "any-")], f"first-pass-row-of-{qm.moleculeId}")
        if name in ("any+", "any-"):
            first_choice[qm.moleculeId] = any_row(E, min(KR, 5), min(KQ, 6), name == "any-", f"first-{qm.moleculeId}")
        else:
            first_choice[qm.moleculeId] = fp_menu[name]
    second_choice = {}   # decided lazily per fragment (keyed by molecule id and fragment shift/size) but once per path
    return dict(refs=refs, queries=queries, su=su, maxDiff=maxDiff, first_choice=first_choice, second_choice=second_choice,
                sp_menu=sp_menu, allowed_s=allowed_s, any_s=[n for n in cfg.get("second", []) if n in ("any+", "any-")], E=E)


def generated_execute(world, log):
    """replacement for _WorkflowCoordinator.execute"""
    E = world["E"]

    def execute(self, referenceMaps, queryMaps):
        log.append([(m.moleculeId, m.shift, len(m.positions)) for m in queryMaps])
        rows = []
        for m in queryMaps:
            is_whole = any(m is q for q in world["queries"])
            if is_whole:
                ch = world["first_choice"][m.moleculeId]
                tag = f"f{m.moleculeId}"
            else:
                key = (m.moleculeId, m.shift, len(m.positions))
                if key not in world["second_choice"]:
                    name = E.choose(world["allowed_s"] + world["any_s"], f"second-pass-row-of-{key}")
                    if name in ("any+", "any-"):
                        labels = sorted(p.siteId for p in m.getPositionsWithSiteIds())
                        world["second_choice"][key] = any_row(E, min(len(referenceMaps[0].positions), 5), 0, name == "any-",
                                                              f"second-{key[0]}-{key[1]}", qlabels=labels[:6], max_pairs=2)
                    else:
                        world["second_choice"][key] = world["sp_menu"][name]
                ch = world["second_choice"][key]
                tag = f"s{m.moleculeId}_{m.shift}_{len(m.positions)}"
            if ch is None:
                continue
            refi, rev, ridx, qidx = ch
            target = [r for r in referenceMaps if r.moleculeId == refi + 1]
            if not target:
                continue
            row = mkrow(E, target[0], m, rev, ridx, qidx, tag, world["su"])
            if row is not None and row.alignedPairs:
                rows.append(row)
        return rows
    return execute


def run_mode(world, mode, order=None, ref_order=None):
    """one run of the real multi-pass coordinator in `mode`; returns dict(main, files, passes, exc)"""
    args = make_args(outputMode=mode, maxDifference=world["maxDiff"])
    cap = CapReader()
    coord = WorkflowCoordinatorFactory(args, Dispatcher([]), cap).create()
    coord.createAdditionalOutputFile = lambda n: f"_{n}"
    log = []
    orig = _WorkflowCoordinator.execute
    _WorkflowCoordinator.execute = generated_execute(world, log)
    out = dict(main=None, files={}, exc=None, log=log, returned=None)
    queries = world["queries"] if order is None else [world["queries"][i] for i in order]
    refs = world["refs"] if ref_order is None else [world["refs"][i] for i in ref_order]
    try:
        returned = coord.execute(refs, queries)
        out["returned"] = returned
        out["main"] = AlignmentResults.create("r.cmap", "q.cmap", returned).rows
        out["files"] = cap.files
    except Exception as ex:  # noqa
        out["exc"] = ex
    finally:
        _WorkflowCoordinator.execute = orig
    return out


def rowkey(row):
    """structural identity of a record (label pairs are concrete on a path)"""
    return (row.queryId, row.referenceId, row.orientation, bool(row.alignedRest),
            tuple((p.reference.siteId, p.query.siteId) for p in row.alignedPairs))


def rowdetail(row):
    """everything C04 looks at: pairs, unpaired labels per segment, Confidence"""
    from harness.pipeline import position_labels
    segs = []
    for sg in row.segments:
        segs.append([[position_labels(p)[0], position_labels(p)[1], position_labels(p)[2]] for p in sg.positions])
    c = row.confidence
    return [list(rowkey(row)), segs, str(c)]


def rowkey_nf(row):
    return rowkey(row)[:3] + rowkey(row)[4:]


def same_rows(E, a, b, with_flag=True):
    """structural equality plus equal confidence (formula)"""
    k = rowkey if with_flag else rowkey_nf
    if [k(x) for x in a] != [k(x) for x in b]:
        return False
    return And([x.confidence == y.confidence for x, y in zip(a, b)])


def summary(res):
    out = {}
    for mode, r in res.items():
        if r["exc"] is not None:
            out[mode] = ["exception", type(r["exc"]).__name__]
        else:
            out[mode] = {"main": [list(rowkey(x)) + [x.confidence] for x in r["main"]],
                         "files": {k: [list(rowkey(x)) for x in v] for k, v in sorted(r["files"].items())},
                         "scores": {repr(rowkey(x)): [[p.reference.siteId, p.query.siteId, p.score] for p in x.alignedPairs]
                                    for x in r["main"] + [y for v in r["files"].values() for y in v]},
                         "detail": [rowdetail(x) for x in r["main"] + [y for v in r["files"].values() for y in v]]}
    return out


def run_all_modes(E, cfg):
    world = build_world(E, cfg)
    res = {}
    for mode in cfg.get("modes", MODES):
        res[mode] = run_mode(world, mode)
    return world, res


MULTIPASS_FUNCTIONS = [
    "src.multi_pass_workflow_coordinator:_MultiPassWorkflowCoordinator.execute",
    "src.multi_pass_workflow_coordinator:_MultiPassWorkflowCoordinator.getSecondPassAlignmentRows",
    "src.multi_pass_workflow_coordinator:_MultiPassWorkflowCoordinator.saveAdditionalOutput",
    "src.alignment.alignment_results:AlignmentResults", "src.alignment.alignment_results:AlignmentResultRow.getUnalignedFragments",
    "src.alignment.alignment_results:AlignmentResultRow.check_overlap", "src.alignment.alignment_results:AlignmentResultRow.resolve",
    "src.alignment.alignment_results:AlignmentResultRow.create", "src.alignment.segments:AlignmentSegment",
    "src.alignment.segments:_SegmentPairWithConflict", "src.workflow_coordinator_factory:WorkflowCoordinatorFactory.create",
]

MULTIPASS_STUBS = ["_WorkflowCoordinator.execute replaced by a generator of arbitrary valid rows (seeding and per-query alignment are "
                   "covered by Level 1 and the orchestration unit)", "xmapReader.writeAlignments captured in memory; "
                   "createAdditionalOutputFile returns a name instead of opening a file"]

MULTIPASS_BOUNDS = ("1-2 queries of 6 labels and one query of 10 labels (both flanks of a middle alignment become fragments), 1-2 references of 6 "
                    "labels; first-pass row per query chosen from {none, + at molecule start, - at molecule end, + at molecule end, + middle with "
                    "skipped labels, +/- middle of the long molecule}; second-pass row per fragment from {none, continuation, overlapping, other "
                    "strand, crossing, other reference, molecule head, reverse tail, fragment-relative, gap-filling, two-segment}; thorough adds "
                    "engine-chosen records (any valid matching of <= 3 pairs in one or two segments over 5 x 6 labels, <= 2 pairs on the fragment, "
                    "both strands); label coordinates, "
                    "seeds, pair scores > 0, unmatchedPenalty <= 0 and maxDifference >= 0 unbounded symbolic reals")


def multipass_configs(tier, prop=None):
    cfgs = [dict(KR=6, KQ=6, nq=1, nrefs=1, first=["none", "start+", "end-", "end+", "middle-skip+"],
                 second=["none", "continue+", "overlap+", "other-strand", "far-crossing+", "head+", "tail-", "fragment-tail+"]),
            dict(KR=6, KQ=6, nq=1, nrefs=1, first=["start-gap+", "two-segments+"], second=["none", "overlap-fill+", "overlap+", "continue+", "two-segments-tail+"]),
            dict(KR=6, KQ=6, nq=1, nrefs=2, first=["start+", "end-", "end+"], second=["none", "continue+", "ref2+"])]
    cfgs.append(dict(KR=6, KQ=6, nq=2, nrefs=1, first=["none", "start+", "end-"], second=["none", "continue+", "overlap+"]))
    # long molecule: one or two fragments per query, crossing second-pass records
    cfgs.append(dict(KR=6, KQ=10, nq=1, nrefs=1, first=["mid-long+", "mid-long-", "near-start+", "near-end+"],
                     second=["none", "continue+", "head+", "tail-", "fragment-tail+", "crossing-shared+"]))
    if tier != "quick":
        cfgs.append(dict(KR=6, KQ=6, nq=2, nrefs=1, first=["none", "start+", "end+", "middle-skip+", "start-gap+"],
                         second=["none", "continue+", "overlap+", "far-crossing+", "overlap-fill+"], swap_ids=True))
        cfgs.append(dict(KR=6, KQ=9, nq=1, nrefs=1))
        cfgs.append(dict(KR=6, KQ=10, nq=1, nrefs=1))
        cfgs.append(dict(KR=6, KQ=6, nq=2, nrefs=2, first=["start+", "end-", "ref2-start+"], second=["none", "continue+", "other-strand", "ref2+"]))
        # engine-chosen records: any valid matching of <= 3 pairs (one or two segments) in the first pass, <= 2 pairs on the fragment
        big = prop in ("C08", "C01")        # the two properties about joined records get the larger universe
        cfgs.append(dict(KR=5 if big else 4, KQ=6 if big else 5, nq=1, nrefs=1, first=["any+"], second=["none", "any+"]))
        cfgs.append(dict(KR=5 if big else 4, KQ=6 if big else 5, nq=1, nrefs=1, first=["any-"], second=["none", "any-"]))
    return cfgs


# ------------------------------------------------------------------------------------------------ oracles

def pairs_of(row):
    return [(p.reference.siteId, p.query.siteId) for p in row.alignedPairs]


def all_files(res):
    """(mode, file name, rows)"""
    for mode, r in res.items():
        if r["exc"] is None:
            yield mode, "main", r["main"]
            for k, v in sorted(r["files"].items()):
                yield mode, k, v


def label_sets(world):
    rl = {m.moleculeId: set(range(1, len(m.positions) + 1)) for m in world["refs"]}
    ql = {m.moleculeId: set(range(1, len(m.positions) + 1)) for m in world["queries"]}
    return rl, ql


def oracle_no_exception(E, world, res):
    for mode, r in res.items():
        if r["exc"] is not None:
            E.fail(f"exception:{type(r['exc']).__name__}")
            return False
    return True


def oracle_c01(E, world, res):
    if not oracle_no_exception(E, world, res):
        return
    rl, ql = label_sets(world)
    for mode, fname, rows in all_files(res):
        for row in rows:
            bad = valid_matching(pairs_of(row), rl.get(row.referenceId, set()), ql.get(row.queryId, set()), row.reverseStrand)
            if not pairs_of(row):
                bad.append("a-written-record-has-at-least-one-pair")
            for b in bad:
                E.fail(f"{b}")
    E.check("checked", True)


def oracle_c05(E, world, res):
    if not oracle_no_exception(E, world, res):
        return
    for mode, fname, rows in all_files(res):
        if fname == "main" or mode in ("separate", "all"):
            ids = [r.queryId for r in rows]
            if len(ids) != len(set(ids)):
                E.fail("at-most-one-record-per-query-in-main-and-in-the-pass-files-of-separate/all")
            if fname == "main" and ids != sorted(ids):
                E.fail("main-file-records-in-ascending-query-id")
    S, B = res.get("separate"), res.get("best")
    if S and B:
        have = {r.queryId for r in S["main"]} | {r.queryId for r in S["files"].get("_1", [])}
        got = [r.queryId for r in B["main"]]
        if sorted(got) != sorted(have):
            E.fail("best-mode-has-exactly-one-record-for-every-query-that-has-any-alignment")
        # the first-pass file holds, per query, a first-pass row of maximal confidence among that query's first-pass rows
    E.check("checked", True)


def oracle_c08(E, world, res):
    if not oracle_no_exception(E, world, res):
        return
    J, A, S, B = res["joined"], res["all"], res["separate"], res["best"]
    E.check("main-of-all-equals-main-of-joined", same_rows(E, A["main"], J["main"]))
    ok = set(A["files"]) == {"_1", "_2"} and set(S["files"]) == {"_1"} and set(J["files"]) == {"_1"} and not B["files"]
    E.check("expected-additional-files-per-mode", ok)
    if not ok:
        return
    E.check("_1-of-all-equals-main-of-separate", same_rows(E, A["files"]["_1"], S["main"]))
    E.check("_2-of-all-equals-_1-of-separate", same_rows(E, A["files"]["_2"], S["files"]["_1"]))
    E.check("first-pass-file-carries-AlignedRest-False", all(not r.alignedRest for r in A["files"]["_1"] + S["main"]))
    E.check("second-pass-file-carries-AlignedRest-True", all(r.alignedRest for r in A["files"]["_2"] + S["files"]["_1"]))
    first, second = S["main"], S["files"]["_1"]
    joined, unjoined = J["main"], J["files"]["_1"]

    def key3(r):
        return (r.queryId, r.referenceId, r.orientation)
    for rec in first + second:
        n_un = sum(1 for u in unjoined if rowkey(u) == rowkey(rec))
        n_j = sum(1 for j in joined if key3(j) == key3(rec))
        if not ((n_un == 1 and n_j == 0) or (n_un == 0 and n_j == 1)):
            E.fail("every-single-pass-record-is-un-joined-or-part-of-exactly-one-joined-record")
    for u in unjoined:
        if not any(rowkey(u) == rowkey(rec) for rec in first + second):
            E.fail("un-joined-records-are-single-pass-records")
    for j in joined:
        fs = [f for f in first if key3(f) == key3(j)]
        ss = [s for s in second if key3(s) == key3(j)]
        if len(fs) != 1 or len(ss) != 1:
            E.fail("a-joined-record-has-a-first-pass-and-a-second-pass-part-of-the-same-query-reference-and-strand")
            continue
        f, s = fs[0], ss[0]
        E.tag("joined")
        lo = [f.referenceStartPosition, s.referenceStartPosition]
        hi = [f.referenceEndPosition, s.referenceEndPosition]
        gap_ok = And([a - b <= world["maxDiff"] for a in lo for b in hi]) if False else \
            Or(And(lo[0] >= lo[1], Or(And(hi[0] <= hi[1], lo[0] - hi[0] <= world["maxDiff"]), And(hi[1] <= hi[0], lo[0] - hi[1] <= world["maxDiff"]))),
               And(lo[1] >= lo[0], Or(And(hi[0] <= hi[1], lo[1] - hi[0] <= world["maxDiff"]), And(hi[1] <= hi[0], lo[1] - hi[1] <= world["maxDiff"]))))
        E.check("joined-parts-have-a-reference-gap-of-at-most-maxDifference", gap_ok)
        union = sorted(set(pairs_of(f)) | set(pairs_of(s)))
        jp = pairs_of(j)
        if not set(jp) <= set(union):
            E.fail("joined-pairs-are-a-subset-of-the-union-of-the-parts")
        rl, ql = label_sets(world)
        if not valid_matching(union, rl[j.referenceId], ql[j.queryId], j.reverseStrand):
            E.tag("union-is-a-valid-matching")
            if sorted(jp) != union:
                E.fail("when-the-union-is-a-valid-matching-the-joined-record-is-exactly-the-union")
    # best mode reports the same underlying alignments
    for b in B["main"]:
        if not (any(rowkey_nf(b) == rowkey_nf(j) for j in joined) or any(rowkey_nf(b) == rowkey_nf(x) for x in first + second)):
            E.fail("best-mode-records-are-joined-records-or-single-pass-records-of-the-other-modes")
    E.check("checked", True)


def oracle_c03(E, world, res):
    from harness.cigar import cigar_failures
    if not oracle_no_exception(E, world, res):
        return
    seen = set()
    for mode, fname, rows in all_files(res):
        for row in rows:
            k = rowkey(row)
            if k in seen:
                continue
            seen.add(k)
            try:
                s = row.cigarString
            except Exception as ex:  # noqa
                E.fail("exception-in-cigarString:" + type(ex).__name__)
                continue
            for b in cigar_failures(s, pairs_of(row), row.orientation == "-"):
                E.fail("record:" + b)
    E.check("checked", True)


def oracle_c04(E, world, res):
    """Confidence of every written record (first-pass, second-pass, joined) is the sum of the scores of exactly the positions it
    reports, and no label is paired twice in it"""
    if not oracle_no_exception(E, world, res):
        return
    seen = set()
    numeric = []
    for mode, fname, rows in all_files(res):
        for row in rows:
            if id(row) in seen:
                continue
            seen.add(id(row))
            numeric.append(row.confidence == sum((p.score for s in row.segments for p in s.positions), 0))
            numeric.append(And([s.segmentScore == sum((p.score for p in s.positions), 0) for s in row.segments]))
            ps = pairs_of(row)
            if len({a for a, _ in ps}) != len(ps) or len({b for _, b in ps}) != len(ps):
                E.fail("no-label-is-counted-in-two-pairs-of-one-record")
            from harness.pipeline import position_labels
            rl = [position_labels(p)[1] for sg in row.segments for p in sg.positions if position_labels(p)[1] is not None]
            ql = [position_labels(p)[2] for sg in row.segments for p in sg.positions if position_labels(p)[2] is not None]
            if len(set(rl)) != len(rl) or len(set(ql)) != len(ql):
                E.fail("no-label-is-counted-twice-in-one-record-(paired-or-unpaired)")
    E.check("confidence-is-the-sum-of-the-scores-of-the-reported-positions", And(numeric))


def oracle_c07(E, world, res):
    oracle_no_exception(E, world, res)
    E.check("checked", True)


def classify_c04(cfg, snap, failures, out):
    """Known finding 'joined-record-lists-a-label-paired-and-unpaired': the only failing clause is the per-record double count and every
    record of every mode (pairs, unpaired labels per segment, Confidence) equals what the frozen reference tree writes for this input."""
    if set(failures) != {"no-label-is-counted-twice-in-one-record-(paired-or-unpaired)"}:
        return None
    try:
        import json
        from fractions import Fraction
        from symx.runner import jsonable
        out = json.loads(json.dumps(jsonable(out)))
        ref = reference_outcome(cfg, snap)
        if "error" in ref:
            return None
        for mode in MODES:
            mine = out[mode]
            if isinstance(mine, list) or isinstance(ref[mode], list):
                return None
            a = [[d[0], d[1], Fraction(d[2]) if not isinstance(d[2], (int, float)) else Fraction(d[2])] for d in mine["detail"]]
            b = [[d[0], d[1], Fraction(d[2])] for d in ref[mode]["detail"]]
            if a != b:
                return None
        return "joined-record-lists-a-label-paired-and-unpaired"
    except Exception:  # noqa
        return None


_REF = {"proc": None}


def reference_outcome(cfg, snap):
    """what the frozen tree /verif/reference writes for this concrete input (persistent helper process, one per worker)"""
    import json
    import subprocess
    import sys as _sys
    from symx.runner import jsonable, VERIF
    import os as _os
    if _REF["proc"] is None or _REF["proc"].poll() is not None:
        env = dict(_os.environ)
        env.pop("SYMX_TWIN", None)
        _REF["proc"] = subprocess.Popen([_sys.executable, "-B", _os.path.join(VERIF, "tools", "ref_server.py")], stdin=subprocess.PIPE,
                                        stdout=subprocess.PIPE, stderr=subprocess.DEVNULL, text=True, env=env)
    pr = _REF["proc"]
    pr.stdin.write(json.dumps({"cfg": cfg, "snapshot": jsonable(snap)}) + "\n")
    pr.stdin.flush()
    return json.loads(pr.stdout.readline())


def classify_c08(cfg, snap, failures, out):
    """Known finding 'join-merge-point-is-not-the-union': the ONLY failing clause is 'joined == union when the union is a valid
    matching' and the frozen reference tree (/verif/reference = pinned commit + fix: commits) writes exactly the same records in all four
    modes for this input.  A change that makes any file differ from the reference on the failing input, or that breaks another
    clause, is not this finding and is reported as a VIOLATION."""
    if set(failures) != {"when-the-union-is-a-valid-matching-the-joined-record-is-exactly-the-union"}:
        return None
    try:
        import json
        from symx.runner import jsonable
        out = json.loads(json.dumps(jsonable(out)))
        ref = reference_outcome(cfg, snap)
        if "error" in ref:
            return None
        for mode in MODES:
            mine = out[mode]
            if isinstance(mine, list) or isinstance(ref[mode], list):
                return None
            if [r[:5] for r in mine["main"]] != ref[mode]["main"]:
                return None
            if {k: v for k, v in mine["files"].items()} != ref[mode]["files"]:
                return None
        return "join-merge-point-is-not-the-union"
    except Exception:  # noqa
        return None


MP_ORACLES = {"C01": oracle_c01, "C03": oracle_c03, "C04": oracle_c04, "C05": oracle_c05, "C07": oracle_c07, "C08": oracle_c08}


def make_body(prop):
    oracle = MP_ORACLES[prop]

    def body(E, cfg):
        world, res = run_all_modes(E, cfg)
        nrows = sum(len(r["main"]) for r in res.values() if r["exc"] is None)
        if nrows:
            E.tag("nontrivial")
        if any(len(l) > 1 and l[1] for r in res.values() for l in [r["log"]]):
            E.tag("second-pass-ran")
        oracle(E, world, res)
        return summary(res)
    return body


def multipass_unit(prop):
    return Unit(name="multipass-modes", body=make_body(prop), configs=lambda tier: multipass_configs(tier, prop), functions=MULTIPASS_FUNCTIONS,
                classify=classify_c08 if prop == "C08" else (classify_c04 if prop == "C04" else None),
                bounds=MULTIPASS_BOUNDS, stubs=MULTIPASS_STUBS,
                shard_depth=lambda cfg, tier: 10,
                nontrivial_rule="at least one record is written in some mode",
                assumptions=["rows handed to the mode logic are valid matchings (C01 at Level 1)", "pair scores > 0",
                             "queries are trimmed (first label 0, length last+1)"],
                outside=["more than 2 queries / 2 references / 1 segment per generated row", "p_imap and worker processes"])
