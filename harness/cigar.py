"""Concrete HitEnum replay (label numbers are concrete on a path) shared by C03's record-level unit."""
import re


def cigar_failures(s, pairs, rev):
    """pairs: listed (referenceLabel, queryLabel) numbers; returns failed clause names"""
    bad = []
    if not pairs:
        return bad
    if not isinstance(s, str) or not s:
        return ["non-empty-when-there-is-a-pair"]
    ops = re.findall(r"(\d+)([MDI])", s)
    if "".join(a + b for a, b in ops) != s or not ops:
        return ["well-formed-run-length-string"]
    if ops[0][1] != "M" or ops[-1][1] != "M":
        bad.append("starts-and-ends-with-M")
    if any(x[1] == y[1] for x, y in zip(ops, ops[1:])):
        bad.append("adjacent-runs-differ")
    if any(int(a) < 1 for a, _ in ops):
        bad.append("counts-at-least-1")
    d = -1 if rev else 1
    r, q = pairs[0]
    out, first = [], True
    for cnt, op in ops:
        for _ in range(int(cnt)):
            if op == "M":
                if not first:
                    r, q = r + 1, q + d
                first = False
                out.append((r, q))
            elif op == "D":
                r += 1
            else:
                q += d
    if out != list(pairs):
        bad.append("replay-yields-exactly-the-listed-pairs")
    return bad
