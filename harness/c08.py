"""C08 -- output modes agree; joined records are justified by and faithful to their parts (see harness/multipass.py)."""
from harness import multipass


def units(prop):
    return [multipass.multipass_unit(prop)]
