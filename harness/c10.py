"""C10 -- a query's record is independent of the other molecules and of file order (decidable reduction, see harness/invariance.py)."""
from harness import invariance, c17


def units(prop):
    return [invariance.noninterference_unit(), invariance.aggregation_unit(restrict=True), invariance.selection_unit(),
            c17.units("C17")[1]]     # sampled: CMAP row / molecule order and id filters through the real reader
