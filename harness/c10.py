"""C10 -- a query's record is independent of the other molecules and of file order (decidable reduction, see harness/invariance.py)."""
from harness import invariance


def units(prop):
    return [invariance.noninterference_unit(), invariance.aggregation_unit(restrict=True), invariance.selection_unit()]
