"""Level 2: stages D-F (chain -> resolve conflicts -> row) from an arbitrary valid pre-state (DESIGN section 4).

A generator builds 2-3 segments over a shared symbolic label universe with the real classes (OpticalMap.getPositionsWithSiteIds for
label numbering and strand mirroring, AlignedPair / NotAligned*Position, the real AlignmentPositionScorer, AlignmentSegment.create).
Assumed invariant I (only what stages A-C are separately shown to guarantee, C12/C13):
  I1 positions of a segment are in non-decreasing absolutePosition order;      I2 every pair has |queryShift| <= maxDistance;
  I3 pairs of one segment are one-to-one and strictly increasing on both maps;   I4 the segment is a contiguous label run;
  I5 it starts and ends with a positively scored pair and scores >= minScore;
  I6 (optional, cfg i6; only the small thorough configuration uses it because the nested |.| terms make every query ~100x slower): no label
     the segment lists unpaired (or paired elsewhere) is, with a label of the other map, a strictly mutual nearest couple within
     maxDistance of the seed's diagonal (such couples are paired: C12 (e)).
The real AlignmentSegmentConflictResolver / SegmentChainer / AlignmentResultRow.create run on them.  The chainer's scorer is
the real SequentialityScorer (multiplier 0: admissibility only; arbitrary finite joins are covered by C14 chain-dp).

Reachability filter: I over-approximates what stages A-C can produce.  In the concrete replay of a candidate the real
Aligner.getSegments is run on the model's maps and seeds; the candidate counts only if every generated segment is one the real
upstream produces (otherwise the pre-state is unreachable and the candidate is dropped as non-reproducing), and the violation is
then shown through the public Aligner.align.
"""
from fractions import Fraction

from symx import And, Or, Not, Implies, Infeasible
from symx.runner import Unit

from harness import pipeline
from harness.pipeline import ascending, scoring_params, build_aligner, Recorder
from src.alignment.alignment_position import AlignedPair, NotAlignedReferencePosition, NotAlignedQueryPosition
from src.alignment.alignment_results import AlignmentResultRow
from src.alignment.segments import AlignmentSegment
from src.alignment.segment_with_resolved_conflicts import AlignmentSegmentsWithResolvedConflicts
from src.correlation.optical_map import OpticalMap
from src.correlation.peak import Peak

SHAPES_QUICK = ["P", "PP", "PRP", "PQP", "PPP"]
SHAPES_THOROUGH = ["P", "PP", "PRP", "PQP", "PPP", "PRQP", "PQRP"]


def seg_signature(seg):
    return tuple(pipeline.position_labels(p)[:3] for p in seg.positions)


def generate(E, cfg):
    KR, KQ, NS, rev = cfg["KR"], cfg["KQ"], cfg["NS"], cfg["rev"]
    r = ascending(E, "r", KR, first_ge=0)
    q = ascending(E, "q", KQ, first_eq=0)
    P = scoring_params(E, cfg)
    R = OpticalMap(1, r[-1] + 10, list(r))
    Q = OpticalMap(7, q[-1] + 1, list(q))
    rp = list(R.getPositionsWithSiteIds())
    qp = sorted(Q.getPositionsWithSiteIds(rev))       # ascending strand coordinate
    aligner = build_aligner(P)
    scorer = aligner.scorer
    segs, peaks = [], []
    shapes = cfg["shapes"]
    for s in range(NS):
        if cfg.get("shapes_per_segment"):
            shape = E.choose(cfg["shapes_per_segment"][s], f"shape{s}")
        else:
            shape = E.choose(shapes if not cfg.get("distinct_shapes") else [shapes[s % len(shapes)]], f"shape{s}")
        nr = sum(c in "PR" for c in shape)
        nq = sum(c in "PQ" for c in shape)
        ri = E.choose(range(0, KR - nr + 1), f"first-ref-label{s}")
        qi = E.choose(range(0, KQ - nq + 1), f"first-qry-label{s}")
        seed = E.real(f"seed{s}")
        peak = Peak(seed, 30.)
        pos = []
        for c in shape:
            if c == "P":
                a, b = rp[ri], qp[qi]
                ri += 1
                qi += 1
                shift = b.position - (a.position - seed)
                E.assume(shift <= P["maxD"])
                E.assume(shift >= -P["maxD"])
                pos.append(AlignedPair(a, b, shift, s + 1))
            elif c == "R":
                pos.append(NotAlignedReferencePosition(rp[ri]))
                ri += 1
            else:
                pos.append(NotAlignedQueryPosition(qp[qi], seed))
                qi += 1
        for x, y in zip(pos, pos[1:]):
            E.assume(x.absolutePosition <= y.absolutePosition)
        # I6 (from C12 (e)): a reference label and a query label that are strictly each other's nearest partner within maxDistance of
        # this seed's diagonal are paired -- so no such couple may involve a label this segment lists unpaired or paired elsewhere
        if cfg.get("i6", False):
            listed_r = {x.reference.siteId for x in pos if not isinstance(x, NotAlignedQueryPosition)}
            listed_q = {x.query.siteId for x in pos if not isinstance(x, NotAlignedReferencePosition)}
            mine = {(x.reference.siteId, x.query.siteId) for x in pos if isinstance(x, AlignedPair)}
            qlen = Q.length

            def dist(a, b):
                return abs(b.position - (a.position - seed))

            def inwin(a):
                return And(a.position >= seed - P["maxD"], a.position <= seed + qlen + P["maxD"])
            for a in rp:
                for b in qp:
                    if (a.siteId, b.siteId) in mine or not (a.siteId in listed_r or b.siteId in listed_q):
                        continue
                    d = dist(a, b)
                    nearest = And([inwin(a), d <= P["maxD"]] +
                                  [Or(Not(inwin(a2)), d < dist(a2, b)) for a2 in rp if a2 is not a] +
                                  [d < dist(a, b2) for b2 in qp if b2 is not b])
                    E.assume(Not(nearest))
        scored = scorer.getScoredPositions(pos)
        E.assume(scored[0].score > 0)
        E.assume(scored[-1].score > 0)
        seg = AlignmentSegment.create(scored, peak, scored)
        E.assume(seg.segmentScore >= P["ms"])
        segs.append(seg)
        peaks.append(peak)
    rlab = {p.siteId: p.position for p in rp}
    qlab = {p.siteId: p.position for p in qp}
    # hints (preferences only, never assumptions): make each seed's real position list produce exactly the generated segment
    hints = [P["bs"] >= sum((abs(p.score) for sg in segs for p in sg.positions), 0)]
    for sg, pk in zip(segs, peaks):
        mine = [(pipeline.position_labels(p)[1], pipeline.position_labels(p)[2]) for p in sg.positions if pipeline.position_labels(p)[0] == "P"]
        seed = pk.position
        lo, hi = sg.positions[0].absolutePosition, sg.positions[-1].absolutePosition
        inside_r = {pipeline.position_labels(p)[1] for p in sg.positions} - {None}
        inside_q = {pipeline.position_labels(p)[2] for p in sg.positions} - {None}
        for a in rp:
            for b in qp:
                if (a.siteId, b.siteId) not in mine:
                    hints.append(abs(b.position - (a.position - seed)) > P["maxD"])
        for a in rp:
            if a.siteId not in inside_r:
                hints.append(Or(a.position < lo, a.position > hi))
        for b in qp:
            if b.siteId not in inside_q:
                hints.append(Or(b.position + seed < lo, b.position + seed > hi))
        run = 0
        for p in sg.positions[:-1]:
            run = run + p.score
            hints.append(run > 0)
    E.prefer = And(hints)
    return dict(E=E, cfg=cfg, r=r, q=q, R=R, Q=Q, P=P, peaks=peaks, rlab=rlab, qlab=qlab, rev=rev, exc=None, aligner=aligner,
                generated=segs)


def run_level2(E, cfg):
    ctx = generate(E, cfg)
    aligner = ctx["aligner"]
    rec = Recorder()
    ctx["rec"] = rec
    if not E.symbolic:
        # reachability filter + public-API replay: the real upstream must produce every generated segment
        produced = []
        for pk in ctx["peaks"]:
            produced.extend(aligner.getSegments(ctx["rev"], pk, ctx["Q"], ctx["R"]))
        have = [(id(s.peak), seg_signature(s)) for s in produced if s.positions]
        peak_of = {id(pk): i for i, pk in enumerate(ctx["peaks"])}
        want = [(i, seg_signature(s)) for i, s in enumerate(ctx["generated"])]
        got = [(peak_of[pid], sig) for pid, sig in have]
        if not all(w in got for w in want):
            raise Infeasible()          # unreachable pre-state: not a finding (DESIGN section 4)
        ctx["extra_real_segments"] = len(got) - len(want)
        rec.install(aligner)
        try:
            ctx["row"] = aligner.align(ctx["R"], ctx["Q"], ctx["peaks"], ctx["rev"])
        except Exception as ex:  # noqa
            ctx["exc"] = ex
        finally:
            rec.uninstall()
        return ctx
    rec.install(aligner)
    try:
        resolved = aligner.segmentConflictResolver.resolveConflicts(list(ctx["generated"]))
        ctx["row"] = AlignmentResultRow.create(resolved, ctx["Q"].moleculeId, ctx["R"].moleculeId, ctx["Q"].length, ctx["R"].length,
                                               ctx["rev"])
    except Exception as ex:  # noqa
        ctx["exc"] = ex
    finally:
        rec.uninstall()
    return ctx


def make_body(prop):
    oracle = pipeline.ORACLES[prop] if prop in pipeline.ORACLES else None

    def body(E, cfg):
        ctx = run_level2(E, cfg)
        pipeline.tag_path(E, ctx)
        if prop == "C07":
            if ctx["exc"] is not None:
                E.fail("exception:" + type(ctx["exc"]).__name__)
            else:
                E.check("returns-a-row", ctx["row"] is not None)
        else:
            oracle(E, ctx)
        if not E.symbolic:
            return ["replayed-through-Aligner.align"] + pipeline.summary(ctx)
        return pipeline.summary(ctx)
    return body


def level2_configs(tier):
    cfgs = []
    if tier == "quick":
        for rev in (False, True):
            cfgs.append(dict(KR=3, KQ=3, NS=2, rev=rev, shapes=SHAPES_QUICK, sj="0"))
        # two 4-pair segments that may overlap by two labels and still be chain-admissible (merge index strictly inside the overlap)
        cfgs.append(dict(KR=6, KQ=6, NS=2, rev=False, shapes=["PPPP"], sj="0"))
        cfgs.append(dict(KR=6, KQ=6, NS=2, rev=True, shapes=["PPPP"], sj="0", dp="1/2"))
        # ladder of two peaks with a small indel inside the overlap (unpaired labels inside the conflicting sub-runs)
        cfgs.append(dict(KR=6, KQ=6, NS=2, rev=False, shapes=["PPRRP", "PQPRP"], sj="0", distinct_shapes=True))
        # a 4-pair segment against one with an unpaired label inside the overlap (different numbers of unpaired positions before the cut)
        cfgs.append(dict(KR=6, KQ=6, NS=2, rev=True, shapes=[], sj="0", shapes_per_segment=[["PPPP"], ["PQPP", "PPRP"]]))
        # reverse strand: an unpaired query label inside the earlier segment next to the overlap
        cfgs.append(dict(KR=5, KQ=5, NS=2, rev=True, shapes=[], sj="0", shapes_per_segment=[["PQP", "PQPP", "PPQP"], ["PP", "PPP"]]))
        # a segment with one unpaired label of each map (an indel pair) against a 4-pair segment: the two seeds pair the overlap
        # differently, so cutting by reference labels and cutting by query labels give different results
        cfgs.append(dict(KR=6, KQ=6, NS=2, rev=True, shapes=[], sj="0", shapes_per_segment=[["PRPQP", "PQPRP"], ["PPPP"]]))
    else:
        for rev in (False, True):
            cfgs.append(dict(KR=4, KQ=4, NS=2, rev=rev, shapes=SHAPES_THOROUGH, sj="0"))
            cfgs.append(dict(KR=4, KQ=3, NS=3, rev=rev, shapes=SHAPES_QUICK, sj="0"))
            cfgs.append(dict(KR=6, KQ=6, NS=2, rev=rev, shapes=[], sj="0", shapes_per_segment=[["PPPP"], ["PQPP", "PRPP", "PPQP", "PPRP"]]))
            cfgs.append(dict(KR=6, KQ=6, NS=2, rev=rev, shapes=["PPPP", "PPRRP", "PQPRP", "PRPQP", "PPQQP", "PPRP", "PQPP"], sj="0"))
            cfgs.append(dict(KR=5, KQ=5, NS=2, rev=rev, shapes=[], sj="0",
                             shapes_per_segment=[["PQP", "PRP", "PQPP", "PPQP", "PRPP", "PPRP"], ["PP", "PPP", "PQP", "PRP"]]))
        cfgs.append(dict(KR=4, KQ=4, NS=3, rev=False, shapes=["P", "PP", "PQP", "PRP"], sj="0", dp="1/2"))
        cfgs.append(dict(KR=3, KQ=3, NS=2, rev=False, shapes=SHAPES_QUICK, sj="0", i6=True))
    return cfgs


def level2_unit(prop):
    return Unit(
        name="level2-generated-segments", body=make_body(prop), configs=level2_configs, witness=False,
        shard_depth=lambda cfg, tier: 8,
        functions=["src.alignment.segment_with_resolved_conflicts:AlignmentSegmentConflictResolver", "src.alignment.segment_chainer:SegmentChainer.chain",
                   "src.alignment.segment_chainer:SequentialityScorer.getScore", "src.alignment.segments:AlignmentSegment",
                   "src.alignment.segments:_SegmentPairWithConflict", "src.alignment.alignment_results:AlignmentResultRow.create",
                   "src.alignment.alignment_position_scorer:AlignmentPositionScorer", "src.alignment.alignment_position:AlignedPair"],
        bounds="2 segments over 3 x 3 labels, two 4-/5-position segments of selected shape families over 5 x 5 and 6 x 6 labels (quick), 2-3 segments over 4 x 4 labels "
               "and 2 segments over 5 x 5 (thorough); shapes over "
               "{P pair, R unpaired reference label, Q unpaired query label} of length <= 3 (quick) / 4 (thorough), any placement, both strands; "
               "coordinates, seeds and scoring parameters symbolic; join multiplier 0",
        nontrivial_rule="the record has at least one pair",
        assumptions=["pre-state invariant I1-I5 (guaranteed by stages A-C: C12, C13); candidates from pre-states the real upstream cannot "
                     "produce are dropped after a concrete run of the real Aligner.getSegments (counted as non-reproduced)",
                     "witness replay is not run for this unit (the concrete run is the reachability-filtered public replay instead)"],
        stubs=["stages A-C replaced by a generator of segments satisfying I (over-approximation)", "observation wrappers of Level 1"],
        outside=["more than 3 generated segments", "segments longer than 4 positions"])


# ------------------------------------------------------------------------------------------------ pair level (join path)

def body_pair(prop):
    """AlignmentSegment.checkForConflicts(...).resolveConflict() on two generated segments, reached through the public join
    AlignmentResultRow.resolve of two one-segment records (earlier segment = smaller first reference coordinate); no chaining."""

    def body(E, cfg):
        ctx = generate(E, cfg)
        a, b = ctx["generated"]
        if not E.symbolic:
            aligner = ctx["aligner"]
            produced = []
            for pk in ctx["peaks"]:
                produced.extend(aligner.getSegments(ctx["rev"], pk, ctx["Q"], ctx["R"]))
            real = []
            for i, g in enumerate((a, b)):
                m = [s for s in produced if s.positions and s.peak is ctx["peaks"][i] and seg_signature(s) == seg_signature(g)]
                if not m:
                    raise Infeasible()      # unreachable pre-state
                real.append(m[0])
            a, b = real
        # the join of a first- and a second-pass record: the public AlignmentResultRow.resolve on two one-segment rows
        if a.alignedPositions[0].reference.position < b.alignedPositions[0].reference.position:
            left, right = a, b
        else:
            left, right = b, a
        Q, R = ctx["Q"], ctx["R"]
        rows = [AlignmentResultRow.create(AlignmentSegmentsWithResolvedConflicts([s]), Q.moleculeId, R.moleculeId, Q.length, R.length, ctx["rev"])
                for s in (a, b)]
        try:
            joined = rows[0].resolve(rows[1].setAlignedRest(True))
        except Exception as ex:  # noqa
            if prop in ("C07", "C15", "C01"):
                E.fail("exception:" + type(ex).__name__)
            return ["exception", type(ex).__name__]
        if joined is None:
            E.tag("not-joined")
            E.check("checked", True)
            return ["not-joined"]
        # the joined record lists the surviving segments in reference order (empty ones dropped): find each part's remainder by identity
        lids, rids = {id(p) for p in left.positions}, {id(p) for p in right.positions}
        nl = nr = None
        foreign = False
        for sg in joined.segments:
            ids = {id(p) for p in sg.positions}
            if not ids:
                continue
            if ids <= lids and nl is None:
                nl = sg
            elif ids <= rids and nr is None:
                nr = sg
            else:
                foreign = True
        if foreign and prop == "C15":
            E.fail("pairwise-resolution-only-removes-positions-keeping-a-contiguous-run")
        nl = nl if nl is not None else AlignmentSegment.create([], left.peak, [])
        nr = nr if nr is not None else AlignmentSegment.create([], right.peak, [])
        rev = ctx["rev"]
        both = sorted((p.reference.siteId, p.query.siteId) for s in (nl, nr) for p in s.alignedPositions)
        if both:
            E.tag("nontrivial")
        if len(nl.positions) < len(left.positions) or len(nr.positions) < len(right.positions):
            E.tag("trimmed")
        bad = pipeline.valid_matching(both, ctx["rlab"], ctx["qlab"], rev)
        lid, rid_ = [id(p) for p in left.positions], [id(p) for p in right.positions]
        nlid, nrid = [id(p) for p in nl.positions], [id(p) for p in nr.positions]

        def subrun(sub, full):
            if not sub:
                return True
            if sub[0] not in full:
                return False
            k = full.index(sub[0])
            return full[k:k + len(sub)] == sub
        if prop == "C15":
            if not (subrun(nlid, lid) and subrun(nrid, rid_)):
                E.fail("pairwise-resolution-only-removes-positions-keeping-a-contiguous-run")
            E.check("score-recomputed-as-sum-of-what-is-left", And(nl.segmentScore == sum(p.score for p in nl.positions),
                                                                   nr.segmentScore == sum(p.score for p in nr.positions)))
            if bad:
                E.fail("after-a-pairwise-resolution-the-two-segments-share-no-label-and-do-not-cross")
            first, last = right.alignedPositions[0], left.alignedPositions[-1]

            def before(p, x):
                return p.reference.siteId < x.reference.siteId and ((p.query.siteId > x.query.siteId) if rev else (p.query.siteId < x.query.siteId))
            if not all(id(p) in nlid for p in left.alignedPositions if before(p, first)):
                E.fail("pairs-of-the-earlier-segment-before-the-later-one's-first-pair-are-kept")
            if not all(id(p) in nrid for p in right.alignedPositions if before(last, p)):
                E.fail("pairs-of-the-later-segment-after-the-earlier-one's-last-pair-are-kept")
        elif prop == "C04":
            if "reference-label-used-at-most-once" in bad or "query-label-used-at-most-once" in bad:
                E.fail("no-label-is-counted-in-two-pairs-of-one-record")
            E.check("segment-scores-are-the-sum-of-their-members", And(nl.segmentScore == sum(p.score for p in nl.positions),
                                                                      nr.segmentScore == sum(p.score for p in nr.positions)))
        else:
            for x in bad:
                E.fail(x)
            E.check("checked", True)
        return [both, [len(nl.positions), len(nr.positions)]]
    return body


def pair_configs(tier):
    cfgs = []
    for rev in (False, True):
        cfgs.append(dict(KR=3, KQ=3, NS=2, rev=rev, shapes=SHAPES_QUICK, sj="0"))
        if tier != "quick":
            cfgs.append(dict(KR=4, KQ=4, NS=2, rev=rev, shapes=SHAPES_THOROUGH, sj="0"))
    if tier == "quick":
        cfgs.append(dict(KR=4, KQ=4, NS=2, rev=False, shapes=["PP", "PPP", "PPPP"], sj="0"))
        cfgs.append(dict(KR=4, KQ=4, NS=2, rev=True, shapes=["PP", "PPP", "PPPP"], sj="0"))
    else:
        cfgs.append(dict(KR=5, KQ=5, NS=2, rev=False, shapes=["PP", "PPP", "PPPP", "PQPP"], sj="0"))
    return cfgs


def pair_unit(prop):
    return Unit(
        name="pair-conflict-resolution", body=body_pair(prop), configs=pair_configs, witness=False,
        shard_depth=lambda cfg, tier: 8,
        functions=["src.alignment.segments:AlignmentSegment.checkForConflicts", "src.alignment.segments:AlignmentSegment.slice",
                   "src.alignment.segments:_SegmentPairWithConflict", "src.alignment.segments:AlignmentSegment.__sub__"],
        bounds="two generated segments (invariant I1-I5) over 3 x 3 labels with shapes of <= 3 positions and over 4 x 4 labels with 2-4 pairs "
               "(quick) / 4 x 4 all shapes <= 4 and 5 x 5 (thorough), both strands, no chain admissibility (the join of a first- and a "
               "second-pass record calls the resolution on any two records of one query)",
        nontrivial_rule="at least one pair is left",
        assumptions=["pre-state invariant I1-I5; candidates from pre-states the real Aligner.getSegments does not produce are dropped"],
        stubs=["stages A-C replaced by the generator (over-approximation)"],
        outside=["segments longer than 4 positions"])
