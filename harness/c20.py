"""C20 -- indel calls are self-consistent and clustering conserves every call.

Units
  cluster_indels      real sv/write_indel_files.cluster_indels on <= 4 calls sorted by (chromosome, RefStop); chromosome, interval,
                      Length and blur symbolic.
  write_indel_file    real writer on <= 3 unsorted calls; the file text is parsed back (numeric cells are marker tokens).
  breakage-molecule / breakage-segment
                      real look_for_indels_in_breakage of sv/molecule_indels.py and sv/segment_indels.py with symbolic label
                      coordinates.
"""
import os
import tempfile
import types
from fractions import Fraction

from symx import And, Or, Not, Implies, Iff
from symx.runner import Unit

import write_indel_files as wif            # /repo/sv is on sys.path (runner)
from src.diagnostic.benchmark_alignment import BenchmarkAlignedPair, BenchmarkAlignmentPosition

TYPES = ["insertion", "deletion"]
QUERY_IDS = [213, 13, 3, 21, 1, 31, 2]      # distinct ids whose decimal texts contain one another (a text-based membership test must not lose one)


def make_calls(E, n, cfg):
    calls = []
    for i in range(n):
        typ = TYPES[cfg["types"][i]]
        chrom = E.int(f"chrom{i}")
        start = E.real(f"refStart{i}")
        stop = E.real(f"refStop{i}")
        length = E.real(f"length{i}")
        E.assume(chrom >= 1)
        E.assume(start <= stop)
        calls.append([typ, chrom, start, stop, QUERY_IDS[i], 5 * i, 5 * i + 3, length])
    return calls


def members_of(cluster):
    v = cluster[4]
    return [int(x) for x in str(v).split(",")] if not isinstance(v, int) else [v]


def conservation(E, calls, clusters, prefix=""):
    n = len(calls)
    wellformed = all(isinstance(c, list) and len(c) == 9 and isinstance(c[8], int) for c in clusters)
    E.check(prefix + "clusters-are-9-field-records-with-integer-count", wellformed)
    if not wellformed:
        return
    E.check(prefix + "counts-sum-to-number-of-calls", sum(c[8] for c in clusters) == n)
    ids = [m for c in clusters for m in members_of(c)]
    E.check(prefix + "every-query-id-in-exactly-one-cluster", sorted(ids) == sorted(c[4] for c in calls))
    E.check(prefix + "count-equals-number-of-member-ids", all(c[8] == len(members_of(c)) for c in clusters))
    byid = {c[4]: c for c in calls}
    pure, cover = [], []
    for c in clusters:
        for m in members_of(c):
            if m not in byid:
                continue
            call = byid[m]
            pure.append(And(c[0] == call[0], c[1] == call[1]))
            cover.append(And(c[2] <= call[2], c[3] >= call[3]))
    E.check(prefix + "clusters-do-not-mix-type-or-chromosome", And(pure))
    E.check(prefix + "cluster-interval-covers-its-members", And(cover))


def body_cluster(E, cfg):
    n = cfg["n"]
    calls = make_calls(E, n, cfg)
    blur = E.real("blur")
    E.assume(blur >= 0)
    for a, b in zip(calls, calls[1:]):   # sorted by (chromosome, RefStop) as the writer sorts them
        E.assume(Or(a[1] < b[1], And(a[1] == b[1], a[3] <= b[3])))
    given = [list(c) for c in calls]
    try:
        clusters = wif.cluster_indels(given, blur) if not cfg.get("default_blur") else wif.cluster_indels(given)
    except Exception as ex:  # noqa
        E.fail("exception:" + type(ex).__name__)
        return ["exception", type(ex).__name__]
    if n >= 2:
        E.tag("nontrivial")
    if len(clusters) < n:
        E.tag("merged")
    conservation(E, calls, clusters)
    out = [[c[0], c[1], c[2], c[3], str(c[4]), c[7], c[8]] if len(c) == 9 else "malformed" for c in clusters]
    # history: the caller clusters the very same rows again (write_indel_file called twice on one dictionary); the second result is
    # held to the same statement with respect to the same calls
    try:
        again = wif.cluster_indels(given, blur) if not cfg.get("default_blur") else wif.cluster_indels(given)
    except Exception as ex:  # noqa
        E.fail("second-run:exception:" + type(ex).__name__)
        return out
    conservation(E, calls, again, "second-run-on-the-same-rows:")
    return out


def configs_cluster(tier):
    cfgs = [{"n": 0, "types": []}, {"n": 1, "types": [0]}]
    top = 3 if tier == "quick" else 5
    for n in range(2, top + 1):
        cfgs.append({"n": n, "types": [0] * n})
        cfgs.append({"n": n, "types": [1] * n})
        cfgs.append({"n": n, "types": [(i % 2) for i in range(n)]})
    return cfgs


def classify_cluster(cfg, snap, failures, out):
    return None


# ------------------------------------------------------------------------------------------------ writer

def cell(E, text):
    text = text.strip()
    if E.symbolic and text in E.markers:
        return E.markers[text][0]
    try:
        return int(text)
    except ValueError:
        try:
            return Fraction(text)
        except ValueError:
            return text


def body_write(E, cfg):
    n = cfg["n"]
    calls = make_calls(E, n, cfg)
    d = {"insertion": [list(c) for c in calls if c[0] == "insertion"], "deletion": [list(c) for c in calls if c[0] == "deletion"]}
    fd, path = tempfile.mkstemp(prefix="coma_c20_", suffix=".txt")
    os.close(fd)
    try:
        try:
            wif.write_indel_file(d, "aln.xmap", file_name=path)
            text = open(path).read()
        except Exception as ex:  # noqa
            E.fail("exception:" + type(ex).__name__)
            return ["exception", type(ex).__name__]
    finally:
        os.unlink(path)
    lines = text.split("\n")
    E.check("header", len(lines) >= 2 and lines[0] == "#aln.xmap" and lines[1].startswith("#Type"))
    rows = [l.split("\t") for l in lines[2:] if l != ""]
    E.check("text-ends-with-newline-and-rows-have-9-fields", text.endswith("\n") and all(len(r) == 9 for r in rows))
    if not all(len(r) == 9 for r in rows):
        return [text]
    clusters = []
    for r in rows:
        c = [r[0]] + [cell(E, x) for x in r[1:]]
        c[4] = r[4]
        clusters.append(c)
    if n >= 2:
        E.tag("nontrivial")
    if len(clusters) < n:
        E.tag("merged")
    conservation(E, calls, clusters, prefix="file:")
    return [E.concretize(text) if E.symbolic else text]


def configs_write(tier):
    cfgs = [{"n": 0, "types": []}, {"n": 1, "types": [1]}, {"n": 2, "types": [0, 0]}, {"n": 2, "types": [1, 0]}]
    cfgs += [{"n": 3, "types": [0, 0, 0]}, {"n": 3, "types": [1, 0, 1]}]
    if tier != "quick":
        cfgs += [{"n": 4, "types": [0, 0, 0, 0]}, {"n": 4, "types": [1, 0, 0, 1]}]
    return cfgs


# ------------------------------------------------------------------------------------------------ indel finders

def body_breakage(E, cfg):
    which = cfg["which"]
    if which == "molecule":
        import molecule_indels as mod
    else:
        import segment_indels as mod
    KR, KQ, npairs = cfg["KR"], cfg["KQ"], cfg["npairs"]
    r = [E.real(f"r{i}") for i in range(KR)]
    q = [E.real(f"q{i}") for i in range(KQ)]
    for xs in (r, q):
        for a, b in zip(xs, xs[1:]):
            E.assume(b > a)
    rev = cfg["rev"]
    # alignment pairs: label numbers chosen by the engine (ascending reference, monotone query)
    rid = [E.choose(range(1, KR + 1), "ref-label")]
    qid = [E.choose(range(1, KQ + 1), "qry-label")]
    for k in range(1, npairs):
        rid.append(E.choose(range(rid[-1] + 1, KR + 1), "ref-label"))
        qid.append(E.choose(range(1, qid[-1]) if rev else range(qid[-1] + 1, KQ + 1), "qry-label"))
    pairs = [BenchmarkAlignedPair(BenchmarkAlignmentPosition(a, 0), BenchmarkAlignmentPosition(b, 0)) for a, b in zip(rid, qid)]
    aln = types.SimpleNamespace(queryId=7, referenceId=3, alignedPairs=pairs)
    bidx = E.choose(range(0, npairs - 1), "breakage-index")
    rmap = types.SimpleNamespace(positions=list(r))
    qmap = types.SimpleNamespace(positions=list(q))
    if which == "molecule":
        breakage = {7: [bidx, pairs[bidx]]}
    else:
        breakage = {7: [[bidx, "(x)"]]}
    try:
        out = mod.look_for_indels_in_breakage({3: [aln]}, {3: rmap}, {7: qmap}, breakage)
    except Exception as ex:  # noqa
        E.fail("exception:" + type(ex).__name__)
        return ["exception", type(ex).__name__]
    calls = out["insertion"] + out["deletion"]
    E.check("lists-hold-their-own-type", all(c[0] == "insertion" for c in out["insertion"]) and all(c[0] == "deletion" for c in out["deletion"]))
    E.check("at-most-one-call-per-breakage", len(calls) <= 1)
    a, b = pairs[bidx], pairs[bidx + 1]
    for c in calls:
        E.tag("nontrivial")
        E.check("call-names-the-two-flanking-labels", And(c[1] == 3, c[4] == 7, c[2] == r[a.reference.siteId - 1], c[3] == r[b.reference.siteId - 1],
                                                           c[5] == q[a.query.siteId - 1], c[6] == q[b.query.siteId - 1]))
        E.check("length-is-reference-gap-minus-query-gap", c[7] == abs(c[2] - c[3]) - abs(c[5] - c[6]))
        E.check("insertion-iff-length-negative", (c[7] < 0) if c[0] == "insertion" else (c[7] >= 0))
    if not calls:
        E.tag("no-call")
    return [[c[0], c[2], c[3], c[5], c[6], c[7]] for c in calls]


def configs_breakage(which):
    def f(tier):
        cfgs = []
        for rev in (False, True):
            cfgs.append({"which": which, "KR": 3, "KQ": 3, "npairs": 2, "rev": rev})
            if tier != "quick":
                cfgs.append({"which": which, "KR": 4, "KQ": 4, "npairs": 3, "rev": rev})
                cfgs.append({"which": which, "KR": 5, "KQ": 5, "npairs": 4, "rev": rev})
        return cfgs
    return f


def units(prop):
    return [
        Unit(name="cluster_indels", body=body_cluster, configs=configs_cluster, classify=classify_cluster,
             functions=["write_indel_files:cluster_indels"],
             bounds="0..3 (quick) / 0..4 (thorough) calls of one type or of alternating types, sorted by (chromosome, RefStop); chromosome "
                    "(integer), RefStart <= RefStop, Length and blur >= 0 unbounded symbolic; query ids concrete and distinct",
             nontrivial_rule="at least two calls",
             assumptions=["input sorted by (chromosome, RefStop) as write_indel_file sorts it", "RefStart <= RefStop"],
             outside=["more than 4 calls"]),
        Unit(name="write_indel_file", body=body_write, configs=configs_write, functions=["write_indel_files:write_indel_file", "write_indel_files:cluster_indels"],
             bounds="0..3 unsorted calls (mixed types), default blur 30000, all numeric fields symbolic; the written text is parsed back",
             nontrivial_rule="at least two calls",
             stubs=["numbers are rendered by str() as marker tokens that map back to the symbolic terms"],
             outside=["decimal rendering of numbers"]),
        Unit(name="breakage-molecule", body=body_breakage, configs=configs_breakage("molecule"), functions=["molecule_indels:look_for_indels_in_breakage"],
             bounds="one joined alignment of 2 (quick) / 3 (thorough) pairs over 3x3 / 4x4 labels with symbolic coordinates, any breakage index, both orientations",
             nontrivial_rule="an indel call is emitted", outside=["find_conflict_place and file reading (pandas)"]),
        Unit(name="breakage-segment", body=body_breakage, configs=configs_breakage("segment"), functions=["segment_indels:look_for_indels_in_breakage"],
             bounds="as breakage-molecule", nontrivial_rule="an indel call is emitted", outside=["find_conflict_place and file reading (pandas)"]),
    ]
