#!/bin/sh
# Reachability twins (vacuity self-test): with every property clause replaced by `false`, each check must end with a replayable
# VIOLATION (exit 1).  Usage: tools/twins.sh [budget_seconds]
cd /verif
B=${1:-40}
fail=0
for p in $(python3 -c "import json;print(' '.join(c['property_id'] for c in json.load(open('MANIFEST.json'))['checks']))"); do
  ./check $p --twin --budget $B > /tmp/twin_$p.log 2>&1
  rc=$?
  n=$(grep -c '^VIOLATION' /tmp/twin_$p.log)
  echo "$p twin exit=$rc violation_lines=$n"
  [ "$rc" = "1" ] || fail=1
done
exit $fail
