#!/usr/bin/env python3
"""Reference oracle for known-finding classification: runs the multi-pass harness concretely against the frozen tree /verif/reference
(one JSON request per line on stdin: {"cfg":..., "snapshot":...}; one JSON answer per line)."""
import json
import os
import sys

VERIF = os.path.dirname(os.path.dirname(os.path.abspath(__file__)))
os.environ["COMA_REPO"] = os.path.join(VERIF, "reference")
sys.path.insert(0, VERIF)
sys.path.insert(0, os.environ["COMA_REPO"])
from symx import ConcreteEngine  # noqa: E402
from symx.runner import load_snapshot, jsonable  # noqa: E402
from harness import multipass  # noqa: E402

for line in sys.stdin:
    try:
        d = json.loads(line)
        E = ConcreteEngine(load_snapshot(d["snapshot"]))
        world, res = multipass.run_all_modes(E, d["cfg"])
        out = {}
        for mode, r in res.items():
            if r["exc"] is not None:
                out[mode] = ["exception", type(r["exc"]).__name__]
            else:
                out[mode] = {"main": [list(multipass.rowkey(x)) for x in r["main"]],
                             "files": {k: [list(multipass.rowkey(x)) for x in v] for k, v in sorted(r["files"].items())},
                             "detail": [multipass.rowdetail(x) for x in r["main"] + [y for v in r["files"].values() for y in v]]}
        print(json.dumps(jsonable(out), sort_keys=True), flush=True)
    except Exception as ex:  # noqa
        print(json.dumps({"error": repr(ex)}), flush=True)
