#!/bin/sh
# Freezes the sources of /repo's HEAD (pinned commit + fix: commits) under /verif/reference.  Used only to decide whether a confirmed
# violation is the recorded known finding (same input, same wrong output as the frozen tree); never to suppress anything else.
set -e
rm -rf /verif/reference/src /verif/reference/sv
git -C /repo archive HEAD src sv | tar -x -C /verif/reference
find /verif/reference -name "*.ipynb" -delete
git -C /repo log --format=%H -1 > /verif/reference/COMMIT
du -sh /verif/reference
