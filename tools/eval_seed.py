#!/usr/bin/env python3
"""Evaluate one seeded change: confirm it (tests pass, demo fails with / passes without), run checks against it in a scratch
worktree (COMA_REPO), record the result under /verif/seeded/<name>/.   usage: eval_seed.py <seed_out_dir> <k> <name> <checks...>"""
import json
import os
import shutil
import subprocess
import sys
import time

src, k, name = sys.argv[1], sys.argv[2], sys.argv[3]
checks = sys.argv[4:]
wt = f"/tmp/ev_{name}"
dest = f"/verif/seeded/{name}"
os.makedirs(dest, exist_ok=True)


def sh(cmd, cwd=None, env=None, timeout=3000):
    e = dict(os.environ)
    e.update(env or {})
    p = subprocess.run(cmd, shell=True, cwd=cwd, env=e, capture_output=True, text=True, timeout=timeout)
    return p.returncode, (p.stdout + p.stderr)


subprocess.run(f"git -C /repo worktree remove --force {wt}", shell=True, capture_output=True)
base = os.environ.get("EVAL_BASE", "HEAD")
rc, out = sh(f"git -C /repo worktree add -q --detach {wt} {base}")
assert rc == 0, out
res = {"name": name, "source": f"{src}/m{k}.diff", "base_commit": subprocess.check_output(["git", "-C", wt, "log", "--format=%h", "-1"], text=True).strip()}
try:
    os.makedirs(f"{wt}/out", exist_ok=True)
    for f in os.listdir(src):
        if f.startswith(f"m{k}") or f.startswith("_"):      # "_*.py": helper modules shared by a sub-agent's demos
            shutil.copy(os.path.join(src, f), f"{wt}/out/{f}")
    demo = f"/venv/bin/python out/m{k}_demo.py"
    res["demo_exit_clean"] = sh(demo, cwd=wt)[0]
    rc, out = sh(f"git apply out/m{k}.diff", cwd=wt)
    res["applies"] = rc == 0
    rc, out = sh("/venv/bin/python -m pytest -q -p no:cacheprovider 2>&1 | tail -1", cwd=wt)
    res["tests"] = out.strip()
    rc, out = sh(demo, cwd=wt)
    res["demo_exit_changed"] = rc
    res["demo_tail"] = out.strip().splitlines()[-3:]
    res["checks"] = {}
    scratch = f"/tmp/ev_out_{name}"
    for c in checks:
        t = time.time()
        rc, out = sh(f"./check {c} --tier quick", cwd="/verif", env={"COMA_REPO": wt, "VERIF_OUT": scratch})
        lines = [l for l in out.splitlines() if l.startswith(("VIOLATION", "KNOWN", "HARNESS", "["))]
        viol = []
        for l in lines:
            if l.startswith("VIOLATION"):
                pth = l.split("replay=")[1]
                try:
                    d = json.load(open(pth))
                    viol.append({"unit": d["unit"], "failures": d["failures"], "paths": d["similar_paths"]})
                except Exception:
                    pass
        res["checks"][c] = {"exit": rc, "wall_s": round(time.time() - t, 1), "summary": lines[-1] if lines else out[-300:],
                            "violations": viol, "harness_error": [l for l in lines if l.startswith("HARNESS")]}
    shutil.rmtree(scratch, ignore_errors=True)
finally:
    subprocess.run(f"git -C /repo worktree remove --force {wt}", shell=True, capture_output=True)
shutil.copy(f"{src}/m{k}.diff", f"{dest}/patch.diff")
shutil.copy(f"{src}/m{k}_demo.py", f"{dest}/demo.py")
for f in os.listdir(src):
    if f.startswith("_") and f.endswith(".py"):
        shutil.copy(os.path.join(src, f), os.path.join(dest, f))
try:
    meta = json.load(open(f"{src}/m{k}_meta.json"))
except Exception:
    meta = {}
meta["evaluation"] = res
meta["confirmed"] = bool(res.get("applies") and res["demo_exit_clean"] == 0 and res["demo_exit_changed"] != 0 and "165 passed" in res["tests"])
meta["caught_by"] = sorted(c for c, v in res["checks"].items() if v["exit"] == 1)
json.dump(meta, open(f"{dest}/meta.json", "w"), indent=1)
print(name, "confirmed" if meta["confirmed"] else "NOT CONFIRMED", "caught_by", meta["caught_by"],
      {c: (v["exit"], v["wall_s"]) for c, v in res["checks"].items()})
