#!/usr/bin/env python3
"""Runs the four multi-pass modes of harness/multipass.py concretely on one recorded input and prints the ordered content of every file.
Started by harness/invariance.py in separate interpreters with different PYTHONHASHSEED values (C09: output must not depend on the run)."""
import json
import os
import sys

VERIF = os.path.dirname(os.path.dirname(os.path.abspath(__file__)))
REPO = os.environ.get("COMA_REPO", "/repo")
sys.path.insert(0, VERIF)
sys.path.insert(0, REPO)
from symx import ConcreteEngine  # noqa: E402
from symx.runner import load_snapshot, jsonable  # noqa: E402
from harness import multipass  # noqa: E402

d = json.load(sys.stdin)
E = ConcreteEngine(load_snapshot(d["snapshot"]))
world, res = multipass.run_all_modes(E, d["cfg"])
out = {}
for mode, r in res.items():
    if r["exc"] is not None:
        out[mode] = ["exception", type(r["exc"]).__name__]
    else:
        out[mode] = {"main": [list(multipass.rowkey(x)) for x in r["main"]],
                     "files": {k: [list(multipass.rowkey(x)) for x in v] for k, v in sorted(r["files"].items())}}
print(json.dumps(jsonable(out), sort_keys=True))
