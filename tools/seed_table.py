#!/usr/bin/env python3
"""Regenerates the table of seeded changes at the end of DESIGN.md section 13 from seeded/*/meta.json."""
import glob
import json
import os

HERE = os.path.dirname(os.path.dirname(os.path.abspath(__file__)))
rows = []
for f in sorted(glob.glob(os.path.join(HERE, "seeded", "*", "meta.json"))):
    m = json.load(open(f))
    name = os.path.basename(os.path.dirname(f))
    ev = m.get("evaluation", {})
    ran = ", ".join(f"{c}:{'caught' if v['exit'] == 1 else ('harness-error' if v['exit'] == 3 else 'missed')}" for c, v in ev.get("checks", {}).items())
    what = (m.get("what_it_breaks") or "").replace("\n", " ").replace("|", "/")
    rows.append(f"| {name} | {', '.join(m.get('files_changed', []))[:60]} | {what[:150]} | {'yes' if m.get('confirmed') else 'NO'} | {ran} |")
table = "| change | file(s) | what it breaks | confirmed | quick checks run against it |\n|---|---|---|---|---|\n" + "\n".join(rows) + "\n"
p = os.path.join(HERE, "DESIGN.md")
s = open(p).read()
marker = "<!-- seed-table -->"
if marker in s:
    s = s[:s.index(marker)]
s = s.rstrip("\n") + "\n\n" + marker + "\n" + table
open(p, "w").write(s)
print(table)
