#!/bin/sh
# Build the overlay venv used by every check (offline; idempotent).
set -e
V=/verif/.venv
if [ ! -x "$V/bin/python" ] || ! "$V/bin/python" -c "import z3, numpy, pandas, scipy" 2>/dev/null; then
  rm -rf "$V"
  /venv/bin/python -m venv "$V"
  printf '/venv/lib/python3.12/site-packages\n' > "$V/lib/python3.12/site-packages/_coma_overlay.pth"
  "$V/bin/pip" install -q --no-index --find-links /opt/veriftools/wheels z3-solver cvc5 crosshair-tool
fi
"$V/bin/python" -c "import z3, cvc5, numpy, pandas, scipy; print('setup ok: z3', z3.get_version_string())"
