"""CLI driver: ./check C13 --tier quick"""
import argparse
import os
import sys

sys.path.insert(0, os.path.dirname(os.path.abspath(__file__)))
os.environ.setdefault("PYTHONDONTWRITEBYTECODE", "1")
os.environ.setdefault("COMA_VERIF", "1")   # reserved hook guard (no hooks are needed, see DESIGN section 8)

from symx import runner  # noqa: E402


def main():
    ap = argparse.ArgumentParser()
    ap.add_argument("prop")
    ap.add_argument("--tier", default=os.environ.get("VERIF_TIER", "quick"), choices=["quick", "thorough"])
    ap.add_argument("--replay")
    ap.add_argument("--nproc", type=int, default=None)
    ap.add_argument("--budget", type=int, default=None)
    ap.add_argument("--twin", action="store_true", help="reachability twin: every property clause is replaced by false; the "
                    "run must end with a replayable VIOLATION (exit 1), otherwise the harness is vacuous. Writes to a scratch directory.")
    a = ap.parse_args()
    if a.twin:
        os.environ["SYMX_TWIN"] = "1"
        os.environ.setdefault("VERIF_OUT", "/tmp/verif_twin_out")
        import importlib
        from symx import engine
        engine.TWIN = True
    prop = a.prop.upper()
    modname = "harness." + prop.lower()
    seed = int(os.environ.get("VERIF_SEED", "0") or 0)
    if a.replay:
        sys.exit(runner.replay(modname, prop, a.replay))
    R = runner.run_property(modname, prop, a.tier, seed, nproc=a.nproc, budget_s=a.budget)
    sys.exit(runner.finish(prop, a.tier, seed, R))


if __name__ == "__main__":
    main()
