from __future__ import annotations

import argparse
import sys
from typing import NamedTuple, TextIO, List, Literal


class Args(NamedTuple):
    referenceFile: TextIO
    queryFile: TextIO
    outputFile: TextIO
    primaryResolution: int
    primaryBlur: int
    secondaryResolution: int
    secondaryBlur: int
    secondaryMargin: int
    referenceIds: List[int]
    queryIds: List[int]
    numberOfCpus: int | None
    minPeakDistance: int
    maxPairDistance: int
    peakHeightThreshold: float
    perfectMatchScore: int
    distancePenaltyMultiplier: int
    unmatchedPenalty: int
    minScore: int
    breakSegmentThreshold: int
    maxDifference: int
    diagnosticsEnabled: bool
    benchmarkAlignmentFile: TextIO
    peaksCount: int
    disableProgressBar: bool
    outputMode: Literal["best", "separate", "joined", "all", "single"]
    segmentJoinMultiplier: float
    sequentialityScore: int

    @staticmethod
    def parse(args: List[str] = None) -> Args:
        parser = argparse.ArgumentParser(description="Optical map aligner.")

        parser.add_argument("-r", "--reference", dest="referenceFile", type=argparse.FileType("r"), required=True,
                            help="Reference optical map in CMAP format file path.")

        parser.add_argument("-q", "--query", dest="queryFile", type=argparse.FileType("r"), required=True,
                            help="Query optical map in CMAP format file path.")

        parser.add_argument("-rId", "--referenceIDs", dest="referenceIds", type=int, nargs="*",
                            help="CMapId(s) of reference molecules to be used. Takes all if omitted.")

        parser.add_argument("-qId", "--queryIDs", dest="queryIds", type=int, nargs="*",
                            help="CMapId(s) of query molecules to be used. Takes all if omitted.")

        parser.add_argument("-o", "--output", dest="outputFile", nargs="?", type=argparse.FileType("w"),
                            default=sys.stdout,
                            help="XMAP output file path. Stdout is used if omitted.")

        parser.add_argument("-oM", "--outputMode", dest="outputMode", type=str,
                            default="best", choices=["best", "separate", "joined", "all"],
                            help="Mode which should be used while creating output alignment file. There are 3 possible "
                                 "options: 'best'- includes joined alignments when possible and best alignment based on "
                                 "confidence when joined option is not available, 'separate'- creates two "
                                 "separate files for alignments, 'joined'- joins alignments when it is possible and saves "
                                 "rest to separate file, 'all'-creates 3 files, one with joint alignments, and two with all "
                                 "obtained alignments.")

        parser.add_argument("-r1", "--primaryResolution", dest="primaryResolution", type=int, default=1400,
                            help="Scaling factor used to reduce the size of the vectorized form of the optical map "
                                 "in the initial cross-correlation seeding step.")

        parser.add_argument("-b1", "--primaryBlur", dest="primaryBlur", type=int, default=1,
                            help="Extends each label in the vectorized form of the optical map in both directions "
                                 "by given number of positions in the initial cross-correlation seeding step "
                                 "in order to increase the chance of overlap. "
                                 "Final width of each label is equal to 2b + 1.")

        parser.add_argument("-p", "--peaksCount", dest="peaksCount", type=int, default=3,
                            help="Number of peaks found for each query molecule against all reference molecules in the "
                                 "first cross-correlation run that are selected for further steps - the second "
                                 "cross-correlation run and alignment creation. Then the alignment with the highest "
                                 "score is returned, one alignment record per query molecule at most.")

        parser.add_argument("-md", "--minPeakDistance", dest="minPeakDistance", type=int, default=20000,
                            help="Minimum distance between peaks identified in the initial cross-correlation. "
                                 "For more details see parameter distance of scipy.signal._peak_finding.find_peaks.")

        parser.add_argument("-r2", "--secondaryResolution", dest="secondaryResolution", type=int, default=100,
                            help="Scaling factor used to reduce the size of the vectorized form of the optical map "
                                 "in the second cross-correlation run.")

        parser.add_argument("-b2", "--secondaryBlur", dest="secondaryBlur", type=int, default=4,
                            help="Extends each label in the vectorized form of the optical map in both directions "
                                 "by given number of positions in the second cross-correlation run "
                                 "in order to increase the chance of overlap. "
                                 "Final width of each label is equal to 2b + 1.")

        parser.add_argument("-ma", "--secondaryMargin", dest="secondaryMargin", type=int, default=16000,
                            help="The number of base pairs by which the peak from initial cross-correlation "
                                 "seeding is extended in both directions to serve as an input "
                                 "for the second cross-correlation run.")

        parser.add_argument("-pt", "--peakHeightThreshold", dest="peakHeightThreshold", type=float, default=27,
                            help="Minimum second cross-correlation peak height to qualify for aligned pairs search.")

        parser.add_argument("-d", "--maxPairDistance", dest="maxPairDistance", type=int, default=1500,
                            help="Maximum distance between aligned pairs relatively to the cross-correlation lag.")

        parser.add_argument("-sp", "--perfectMatchScore", dest="perfectMatchScore", type=int, default=1000,
                            help="Score value given to an aligned pair with 0 distance between reference and query "
                                 "positions.")

        parser.add_argument("-dp", "--distancePenaltyMultiplier", dest="distancePenaltyMultiplier", type=float,
                            default=1., help="Multiplier applied to the distance between reference and query positions "
                                             "of an aligned pair that reduces the pair's score.")

        parser.add_argument("-su", "--unmatchedPenalty", dest="unmatchedPenalty", type=int, default=-250,
                            help="Penalty to a segment score for each unpaired reference or query position.")

        parser.add_argument("-ms", "--minScore", dest="minScore", type=int, default=1000,
                            help="Minimum score of a segment.")

        parser.add_argument("-bs", "--breakSegmentThreshold", dest="breakSegmentThreshold", type=int, default=1200,
                            help="Alignment segments can be split into two if their score drops below this threshold.")

        parser.add_argument("-diff", "--maxDifference", dest="maxDifference", type=int, default=100000,
                            help="Multiple alignments of the same query will be joined if difference between their "
                                 "reference positions is less or equal this parameter.")

        parser.add_argument("-D", "--diagnostics", dest="diagnosticsEnabled", action="store_true",
                            help="Draws cross-correlation and alignment plots. When used, 'outputFile' parameter "
                                 "is required. When 'benchmarkAlignmentFile' is provided, alignment plots will allow "
                                 "to compare both alignments if they are overlapping.")

        parser.add_argument("-a", "--benchmarkAlignment", dest="benchmarkAlignmentFile", type=argparse.FileType("r"),
                            default=None,
                            help="XMAP file containing alignments from other source, to be used with 'diagnostics' "
                                 "option.")

        parser.add_argument("-c", "--cpus", dest="numberOfCpus", type=int, default=None,
                            help="Number of CPUs to use. The default is all available CPUs.")

        parser.add_argument("-pb", "--disableProgressBar", dest="disableProgressBar", action="store_true",
                            help="Disables the progress bar.")

        parser.add_argument("-sj", "--segmentJoinMultiplier", dest="segmentJoinMultiplier", type=float, default=1,
                            help="Multiplier applied to segment sequentiality scores.")

        parser.add_argument("-ss", "--sequentialityScore", dest="sequentialityScore", type=int, default=0,
                            help="Segment sequentiality scoring function version.")

        args = parser.parse_args(args)
        return args  # type: ignore
