import itertools
from typing import TextIO, Iterable, List

from src.diagnostic.benchmark_alignment import BenchmarkAlignment
from src.parsers.simulation_data_as_xmap_reader import SimulationDataAsXmapReader
from src.parsers.xmap_reader import XmapReader


class AlignmentBenchmarkReader:
    def __init__(self, xmapReader: XmapReader, simulationReader: SimulationDataAsXmapReader):
        self.xmapReader = xmapReader
        self.simulationReader = simulationReader

    def read(self, file: TextIO, queryIds: Iterable[int] = None) -> List[BenchmarkAlignment]:
        headers = "\n".join(itertools.islice(itertools.takewhile(lambda line: line.startswith("#"), file), 10))
        file.seek(0, 0)
        if "XMAP" in headers:
            return self.xmapReader.readAlignments(file, queryIds=queryIds)
        if "SimuInfoDetail" in headers:
            return self.simulationReader.readAlignments(file, queryIds=queryIds)
        else:
            raise Exception(f"File {file.name} is in unknown format. Either XMAP or SDATA formats are supported.")
