import os.path
import socket
from io import TextIOWrapper
from typing import List, TextIO, Iterable

import pandas as pd
from pandas import DataFrame, Series

from src.alignment.alignment_results import AlignmentResults
from src.args import Args
from src.correlation.bionano_alignment import BionanoAlignment
from src.parsers.bionano_file_reader import BionanoFileReader
from src.parsers.xmap_alignment_pair_parser import XmapAlignmentPairParser, BaseXmapAlignmentPairParser


class XmapReader:
    def __init__(self, pairParser: BaseXmapAlignmentPairParser = None) -> None:
        self.reader = BionanoFileReader()
        self.pairParser = pairParser or XmapAlignmentPairParser()

    def readAlignments(self, file: TextIO, alignmentIds: Iterable[int] = None, queryIds: Iterable[int] = None) -> \
            List[BionanoAlignment]:
        alignments = self.reader.readFile(file,
                                          ["XmapEntryID", "QryContigID", "RefContigID", "QryStartPos",
                                           "QryEndPos", "RefStartPos", "RefEndPos", "Orientation",
                                           "Confidence", "HitEnum", "QryLen", "RefLen", "Alignment"])
        if alignmentIds:
            alignments = alignments[alignments["XmapEntryID"].isin(alignmentIds)]

        if queryIds:
            alignments = alignments[alignments["QryContigID"].isin(queryIds)]

        if alignments.empty:
            return []

        return alignments.apply(self.__rowParserFactory(), axis=1).tolist()

    def writeAlignments(self, file: TextIO, alignmentResults: AlignmentResults, args: Args):
        columns = {
            "#h": "#f",
            "XmapEntryID": "int",
            "QryContigID": "int",
            "RefContigID": "int",
            "QryStartPos": "float",
            "QryEndPos": "float",
            "RefStartPos": "float",
            "RefEndPos": "float",
            "Orientation": "string",
            "Confidence": "float",
            "HitEnum": "string",
            "QryLen": "float",
            "RefLen": "float",
            "AlignedRest": "string",
            "LabelChannel": "int",
            "Alignment": "string"
        }
        file.writelines(line + "\n" for line in [
            f"# hostname={socket.gethostname()}",
            "# coma " + " ".join([f"--{k} {self.__argToString(v)}" for k, v in vars(args).items()]),
            "# XMAP File Version:\t0.2",
            f"# Reference Maps From:\t{os.path.abspath(alignmentResults.referenceFilePath)}",
            f"# Query Maps From:\t{os.path.abspath(alignmentResults.queryFilePath)}",
            "\t".join([columnName for columnName in columns.keys()]),
            "\t".join([columnType for columnType in columns.values()])])

        dataFrame = DataFrame([{
            "QryContigID": row.queryId,
            "RefContigID": row.referenceId,
            "QryStartPos": "{:.1f}".format(row.queryStartPosition),
            "QryEndPos": "{:.1f}".format(row.queryEndPosition),
            "RefStartPos": "{:.1f}".format(row.referenceStartPosition),
            "RefEndPos": "{:.1f}".format(row.referenceEndPosition),
            "Orientation": row.orientation,
            "Confidence": "{:.2f}".format(row.confidence),
            "HitEnum": row.cigarString,
            "QryLen": "{:.1f}".format(row.queryLength),
            "RefLen": "{:.1f}".format(row.referenceLength),
            "AlignedRest": "{}".format(row.alignedRest),
            "LabelChannel": 1,
            "Alignment": "".join(
                [f"({pair.reference.siteId},{pair.query.siteId})" for pair in row.alignedPairs]),
        } for row in alignmentResults.rows], index=pd.RangeIndex(start=1, stop=len(alignmentResults.rows) + 1))
        dataFrame.to_csv(file, sep='\t', header=False, mode="a", lineterminator='\n')

    def __rowParserFactory(self):
        def parseRow(row: Series):
            queryId = int(row["QryContigID"])
            referenceId = int(row["RefContigID"])
            reverseStrand = row["Orientation"] == "-"
            return BionanoAlignment.parse(row["XmapEntryID"], queryId, referenceId, row["QryStartPos"],
                                          row["QryEndPos"], row["RefStartPos"], row["RefEndPos"], reverseStrand,
                                          row["Confidence"], row["HitEnum"], row["QryLen"], row["RefLen"],
                                          self.pairParser.parse(row["Alignment"], queryId, referenceId, reverseStrand))

        return parseRow

    @staticmethod
    def __argToString(arg):
        if isinstance(arg, TextIOWrapper):
            return arg.name
        if isinstance(arg, list):
            return " ".join(str(a) for a in arg)
        return str(arg)
