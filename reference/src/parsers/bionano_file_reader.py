from __future__ import annotations

import itertools
import re
from typing import List, TextIO

import pandas
from pandas import DataFrame


class BionanoFileReader:
    def __init__(self, headersLinePrefix: str = '#h'):
        self.headersLinePrefix = headersLinePrefix

    def readFile(self, file: TextIO, columns: List[str]) -> DataFrame:
        return pandas.read_csv(
            file,
            comment="#",
            delimiter="\t",
            names=self.__getColumnNames(file),
            usecols=columns)

    def __getColumnNames(self, file: TextIO):
        commentLines = itertools.dropwhile(lambda line: not line.startswith(self.headersLinePrefix), file)
        header_line = list(itertools.islice(commentLines, 1))[0].strip()
        names = re.split(r'\s+', header_line)[1:]
        return names
