from typing import List, TextIO, Iterable

from pandas import Series

from src.correlation.simulated_alignment import SimulatedAlignment
from src.diagnostic.benchmark_alignment import BenchmarkAlignment
from src.parsers.bionano_file_reader import BionanoFileReader
from src.parsers.simulation_alignment_pair_parser import BaseSimulationAlignmentPairParser, \
    SimulationAlignmentPairParser


class SimulationDataAsXmapReader:
    def __init__(self, pairParser: BaseSimulationAlignmentPairParser = None, reader: BionanoFileReader = None) -> None:
        self.pairParser = pairParser or SimulationAlignmentPairParser()
        self.reader = reader or BionanoFileReader(headersLinePrefix="#Fragment")

    def readAlignments(self, file: TextIO, queryIds: Iterable[int] = None) -> List[BenchmarkAlignment]:
        alignments = self.reader.readFile(
            file,
            ["ID", "Reference", "Strand", "Start", "Stop", "SimuInfoDetail", "Size"])

        if queryIds:
            alignments = alignments[alignments["ID"].isin(queryIds)]

        return alignments.apply(self.__rowParserFactory(), axis=1).tolist()

    def __rowParserFactory(self):
        def parseRow(row: Series):
            queryId = int(row["ID"])
            referenceId = int(row["Reference"])
            reverseStrand = row["Strand"] == "-"
            return SimulatedAlignment.parse(queryId, queryId, referenceId, 0,
                                            row["Size"], row["Start"], row["Stop"], reverseStrand,
                                            9999., "", row["Size"], row["Size"],
                                            self.pairParser.parse(row["SimuInfoDetail"], queryId, referenceId, reverseStrand))

        return parseRow
