from abc import ABC, abstractmethod
from typing import List

from src.correlation.optical_map import OpticalMap
from src.diagnostic.benchmark_alignment import BenchmarkAlignedPair, BenchmarkAlignmentPosition, \
    BenchmarkAlignedPairWithDistance


class BaseXmapAlignmentPairParser(ABC):
    @abstractmethod
    def parse(self, alignment: str, queryId: int, referenceId: int, reverseStrand: bool):
        pass


class XmapAlignmentPairParser(BaseXmapAlignmentPairParser):
    def parse(self, alignment: str, queryId: int, referenceId: int, reverseStrand: bool):
        alignmentPairStrings = alignment[:-1].replace('(', '').split(')')
        return list(map(lambda pair: BenchmarkAlignedPair.create(*pair.split(',')), alignmentPairStrings))


class XmapAlignmentPairWithDistanceParser(BaseXmapAlignmentPairParser):
    def __init__(self, references: List[OpticalMap], queries: List[OpticalMap]):
        self.references = references
        self.queries = queries

    def parse(self, alignment: str, queryId: int, referenceId: int, reverseStrand: bool):
        alignmentPairStrings = alignment[:-1].replace('(', '').split(')')
        reference = next(r for r in self.references if r.moleculeId == referenceId)
        query = next(q for q in self.queries if q.moleculeId == queryId)

        def createAlignedPair(pair: str):
            referenceSiteId, querySiteId = map(lambda siteId: int(siteId), pair.split(','))
            referencePosition = BenchmarkAlignmentPosition(referenceSiteId, reference.positions[referenceSiteId - 1])
            queryPosition = BenchmarkAlignmentPosition(querySiteId, query.positions[querySiteId - 1])
            return BenchmarkAlignedPair(referencePosition, queryPosition)

        alignedPairs = list(map(lambda pair: createAlignedPair(pair), alignmentPairStrings))
        alignedPairsWithDistances = map(
            lambda pair: BenchmarkAlignedPairWithDistance.calculateDistance(pair, alignedPairs[0], reverseStrand),
            alignedPairs)
        return list(alignedPairsWithDistances) if alignedPairs else []
