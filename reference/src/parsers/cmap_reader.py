from typing import List, TextIO, Iterable

from src.correlation.optical_map import OpticalMap
from src.parsers.bionano_file_reader import BionanoFileReader


class CmapReader:
    def __init__(self, reader: BionanoFileReader = None) -> None:
        self.reader = reader or BionanoFileReader()

    def readQueries(self, file: TextIO, moleculeIds: Iterable[int] = None):
        return self.__read(file, moleculeIds or [])

    def readQuery(self, file: TextIO, moleculeId: int):
        return self.__read(file, [moleculeId])[0]

    def readReference(self, file: TextIO, chromosome: int = 1):
        return self.__read(file, [chromosome])[0]

    def readReferences(self, file: TextIO, chromosomes: Iterable[int] = None):
        return self.__read(file, chromosomes or [])

    def __read(self, file: TextIO, moleculeIds: Iterable[int] = None) -> List[OpticalMap]:
        maps = self.reader.readFile(file, ["CMapId", "Position", "LabelChannel"])

        if moleculeIds:
            maps = maps[maps["CMapId"].isin(moleculeIds)]

        opticalMaps = maps.groupby("CMapId").apply(self.__parseCmapRowsGroup)
        return [] if opticalMaps.empty else opticalMaps[opticalMaps.notnull()].tolist()

    @staticmethod
    def __parseCmapRowsGroup(group):
        moleculeId = group["CMapId"].iloc[0]
        labelSites = group[group["LabelChannel"] != 0]
        moleculeEndMarker = group[group["LabelChannel"] == 0].iloc[0]
        length = int(moleculeEndMarker["Position"])
        positions = labelSites["Position"].sort_values().tolist()
        return OpticalMap(moleculeId, length, positions) if positions else None
