from abc import ABC, abstractmethod
from typing import List

from src.correlation.optical_map import OpticalMap
from src.diagnostic.benchmark_alignment import BenchmarkAlignedPair, BenchmarkAlignmentPosition, \
    BenchmarkAlignedPairWithDistance


class BaseSimulationAlignmentPairParser(ABC):
    @abstractmethod
    def parse(self, simulationDetail: str, queryId: int, referenceId: int, reverseStrand: bool):
        pass


class SimulationAlignmentPairParser(BaseSimulationAlignmentPairParser):
    def parse(self, simulationDetail: str, queryId: int, referenceId: int, reverseStrand: bool):
        pairs = [pair for pairs in
                 [SimulationAlignmentPairParser.__parsePair(x, i + 1) for i, x in enumerate(simulationDetail.split(";")) if x != "FP"]
                 for pair in pairs]
        if reverseStrand:
            pairs.reverse()
        return pairs

    @staticmethod
    def __parsePair(simulationDetailOfPosition: str, querySiteId: int):
        if "," in simulationDetailOfPosition:
            splitPositionStrings = simulationDetailOfPosition.split(",")
            return [BenchmarkAlignedPair.create(s.split(":")[1], str(querySiteId)) for s in splitPositionStrings if s != "FP"]
        else:
            return [BenchmarkAlignedPair.create(simulationDetailOfPosition.split(":")[1], str(querySiteId))]


class SimulationAlignmentPairWithDistanceParser(BaseSimulationAlignmentPairParser):
    def __init__(self, references: List[OpticalMap], queries: List[OpticalMap]):
        self.references = references
        self.queries = queries

    def parse(self, simulationDetail: str, queryId: int, referenceId: int, reverseStrand: bool):
        reference = next(r for r in self.references if r.moleculeId == referenceId)
        query = next(q for q in self.queries if q.moleculeId == queryId)

        pairs = [pair for pairs in
                 [self.__parsePair(x, i + 1, reference, query) for i, x in enumerate(simulationDetail.split(";")) if x != "FP"]
                 for pair in pairs]
        if reverseStrand:
            pairs.reverse()

        pairsWithDistance = map(lambda pair: BenchmarkAlignedPairWithDistance.calculateDistance(pair, pairs[0], reverseStrand), pairs)
        return list(pairsWithDistance) if pairs else []

    def __parsePair(self, simulationDetailOfPosition: str, querySiteId: int, reference: OpticalMap, query: OpticalMap):
        if not simulationDetailOfPosition:
            return []
        if "," in simulationDetailOfPosition:
            splitPositionStrings = simulationDetailOfPosition.split(",")
            return [self.__createPairWithDistance(int(s.split(":")[1]), querySiteId, reference, query) for s in splitPositionStrings if s != "FP"]
        else:
            return [self.__createPairWithDistance(int(simulationDetailOfPosition.split(":")[1]), querySiteId, reference, query)]

    @staticmethod
    def __createPairWithDistance(referenceSiteIdIndexedFrom0: int, querySiteId: int, reference: OpticalMap, query: OpticalMap):
        return BenchmarkAlignedPair(
            BenchmarkAlignmentPosition(referenceSiteIdIndexedFrom0 + 1, reference.positions[referenceSiteIdIndexedFrom0]),
            BenchmarkAlignmentPosition(querySiteId, query.positions[querySiteId - 1]))
