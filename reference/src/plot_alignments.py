from __future__ import annotations

import argparse
import os
from typing import NamedTuple, TextIO, List

from tqdm import tqdm

from src.diagnostic.alignment_plot import BenchmarkAlignmentPlot, Options
from src.diagnostic.diagnostics import DiagnosticsWriter
from src.parsers.alignment_benchmark_reader import AlignmentBenchmarkReader
from src.parsers.cmap_reader import CmapReader
from src.parsers.simulation_alignment_pair_parser import SimulationAlignmentPairWithDistanceParser
from src.parsers.simulation_data_as_xmap_reader import SimulationDataAsXmapReader
from src.parsers.xmap_alignment_pair_parser import XmapAlignmentPairWithDistanceParser
from src.parsers.xmap_reader import XmapReader


def main():
    parser = argparse.ArgumentParser(description="Plots optical map alignments.")
    parser.add_argument(dest="alignmentFile", nargs=1, type=argparse.FileType("r"))
    parser.add_argument("-r", "--reference", dest="referenceFile", type=argparse.FileType("r"), required=True)
    parser.add_argument("-q", "--query", dest="queryFile", type=argparse.FileType("r"), required=True)
    parser.add_argument("-o", "--output", dest="outputFile", type=argparse.FileType("w"), required=True)
    parser.add_argument("-qId", "--queryIDs", dest="queryIds", type=int, nargs="*")
    parser.add_argument("-n", "--maxCount", dest="maxCount", type=int, default=None)
    parser.add_argument("-rs", "--referenceStartPosition", dest="referenceStartPosition", type=int, default=None)
    parser.add_argument("-re", "--referenceEndPosition", dest="referenceEndPosition", type=int, default=None)
    parser.add_argument("-qs", "--queryStartPosition", dest="queryStartPosition", type=int, default=None)
    parser.add_argument("-qe", "--queryEndPosition", dest="queryEndPosition", type=int, default=None)
    parser.add_argument("-l", "--hideLegend", dest="hideLegend", action="store_true")

    args: Args = parser.parse_args()  # type: ignore
    Program(args).run()


class Args(NamedTuple):
    alignmentFile: List[TextIO]
    referenceFile: TextIO
    queryFile: TextIO
    outputFile: TextIO
    queryIds: List[int]
    maxCount: int | None
    referenceStartPosition: int | None = None
    referenceEndPosition: int | None = None
    queryStartPosition: int | None = None
    queryEndPosition: int | None = None
    hideLegend: bool = False


class Program:
    def __init__(self, args: Args):
        self.args = args
        self.sequenceReader = CmapReader()
        self.writer = DiagnosticsWriter(args.outputFile)

    def run(self):
        references = self.sequenceReader.readReferences(self.args.referenceFile)
        queries = self.sequenceReader.readQueries(self.args.queryFile)
        pairParser = XmapAlignmentPairWithDistanceParser(references, queries)
        benchmarkReader = AlignmentBenchmarkReader(
            XmapReader(pairParser),
            SimulationDataAsXmapReader(SimulationAlignmentPairWithDistanceParser(references, queries)))
        alignments = benchmarkReader.read(self.args.alignmentFile[0], self.args.queryIds)
        for alignment in tqdm(alignments[:self.args.maxCount or len(alignments)]):
            reference = next(r for r in references if r.moleculeId == alignment.referenceId)
            query = next(q for q in queries if q.moleculeId == alignment.queryId)
            plot = BenchmarkAlignmentPlot(
                reference,
                query,
                alignment,
                Options(
                    referenceStartPosition=self.args.referenceStartPosition,
                    referenceEndPosition=self.args.referenceEndPosition,
                    queryStartPosition=self.args.queryStartPosition,
                    queryEndPosition=self.args.queryEndPosition,
                    limitQueryToAlignedArea=True,
                    hideLegend=self.args.hideLegend
                ))
            self.writer.savePlot(plot.figure, f"r{reference.moleculeId}_q{query.moleculeId}_{os.path.basename(self.args.outputFile.name)}")


if __name__ == '__main__':
    main()
