from __future__ import annotations

from itertools import chain
from typing import List, Iterator

from p_tqdm import p_imap

from src.alignment.aligner import Aligner
from src.alignment.alignment_results import AlignmentResultRow
from src.args import Args
from src.correlation.optical_map import OpticalMap, InitialAlignment, CorrelationResult
from src.correlation.peaks_selector import PeaksSelector, SelectedPeak
from src.correlation.sequence_generator import SequenceGenerator
from src.extensions.dispatcher import Dispatcher
from src.extensions.messages import CorrelationResultMessage, InitialAlignmentMessage, AlignmentResultRowMessage, \
    MultipleAlignmentResultRowsMessage


class _WorkflowCoordinator:
    def __init__(self, args: Args, primaryGenerator: SequenceGenerator, secondaryGenerator: SequenceGenerator,
                 aligner: Aligner, dispatcher: Dispatcher, peaksSelector: PeaksSelector):
        self.args = args
        self.primaryGenerator = primaryGenerator
        self.secondaryGenerator = secondaryGenerator
        self.aligner = aligner
        self.dispatcher = dispatcher
        self.peaksSelector = peaksSelector

    def execute(self, referenceMaps: List[OpticalMap], queryMaps: List[OpticalMap]) -> List[AlignmentResultRow]:
        return [a for a in p_imap(
            lambda x: self.__align(*x),
            list((referenceMaps, q) for q in queryMaps),
            num_cpus=self.args.numberOfCpus,
            disable=self.args.disableProgressBar)
                if a is not None and a.alignedPairs]

    def __align(self, referenceMaps: List[OpticalMap], queryMap: OpticalMap) -> AlignmentResultRow | None:
        primaryCorrelations = chain.from_iterable(self.__getPrimaryCorrelations(r, queryMap) for r in referenceMaps)

        bestPrimaryCorrelationPeaks = self.peaksSelector.selectPeaks(primaryCorrelations)

        secondaryCorrelations = [self.__getSecondaryCorrelation(p, i)
                                 for i, p in enumerate(bestPrimaryCorrelationPeaks)]

        if not secondaryCorrelations:
            return None

        alignmentResultRows, messages = zip(*[self.__getAlignmentRow(pc, sc, i) for i, (pc, sc) in
                                              enumerate(secondaryCorrelations)])
        self.dispatcher.dispatch(MultipleAlignmentResultRowsMessage(messages))
        return self.__getBestAlignment(alignmentResultRows)

    def __getPrimaryCorrelations(self, referenceMap: OpticalMap, queryMap: OpticalMap) -> Iterator[InitialAlignment]:
        primaryCorrelation = queryMap.getInitialAlignment(referenceMap, self.primaryGenerator,
                                                          self.args.minPeakDistance, self.args.peaksCount)
        self.dispatcher.dispatch(InitialAlignmentMessage(primaryCorrelation))

        primaryCorrelationReverse = queryMap.getInitialAlignment(
            referenceMap, self.primaryGenerator, self.args.minPeakDistance, self.args.peaksCount, reverseStrand=True)

        self.dispatcher.dispatch(InitialAlignmentMessage(primaryCorrelationReverse))
        if any(primaryCorrelation.peaks):
            yield primaryCorrelation
        if any(primaryCorrelationReverse.peaks):
            yield primaryCorrelationReverse

    def __getSecondaryCorrelation(self, selectedPeak: SelectedPeak, index: int):
        secondaryCorrelation = selectedPeak.primaryCorrelation.refine(selectedPeak.peak.position,
                                                                      self.secondaryGenerator,
                                                                      self.args.secondaryMargin,
                                                                      self.args.peakHeightThreshold)

        self.dispatcher.dispatch(CorrelationResultMessage(selectedPeak.primaryCorrelation, secondaryCorrelation, index))
        return selectedPeak.primaryCorrelation, secondaryCorrelation

    def __getAlignmentRow(self, ic: InitialAlignment, sc: CorrelationResult, index: int):
        alignmentResultRow = self.aligner.align(sc.reference, sc.query, sc.peaks, sc.reverseStrand)
        message = AlignmentResultRowMessage(sc.reference, sc.query, alignmentResultRow, ic, index)
        self.dispatcher.dispatch(message)
        return alignmentResultRow, message

    @staticmethod
    def __getBestAlignment(alignmentResultRows: List[AlignmentResultRow]):
        return next(iter(sorted(alignmentResultRows, key=lambda a: a.confidence, reverse=True)), None)
