from __future__ import annotations

from dataclasses import dataclass
from itertools import groupby
from math import ceil
from typing import List, Tuple

import numpy as np
from matplotlib import pyplot
from matplotlib.axes import Axes
from matplotlib.figure import Figure
from matplotlib.patches import Rectangle
from matplotlib.ticker import EngFormatter

from src.alignment.alignment_position import AlignedPair
from src.alignment.alignment_results import AlignmentResultRow
from src.alignment.segments import AlignmentSegment
from src.correlation.optical_map import OpticalMap, PositionWithSiteId, InitialAlignment
from src.correlation.peak import Peak
from src.diagnostic.benchmark_alignment import BenchmarkAlignment, BenchmarkAlignedPair


@dataclass(frozen=True)
class Options:
    limitQueryToAlignedArea: bool = False
    drawGridForNotAlignedPositions: bool = True
    drawRemovedAlignedPositions: bool = True
    referenceStartPosition: int | None = None
    referenceEndPosition: int | None = None
    queryStartPosition: int | None = None
    queryEndPosition: int | None = None
    hideLegend: bool = False


class AlignmentPlot:
    def __init__(self, reference: OpticalMap, query: OpticalMap, alignment: AlignmentResultRow | BenchmarkAlignment,
                 correlation: InitialAlignment = None, benchmarkAlignment: BenchmarkAlignment = None, options: Options = None):
        self.reference = reference
        self.query = query
        self.alignment = alignment
        self.correlation = correlation
        self.benchmarkAlignment = benchmarkAlignment
        self.options = options or Options()
        self.create()

    def create(self):
        self._createFigure()
        self._setDimensions()
        self._plotReference()
        self._plotQuery()
        self._drawPrimaryPeak()
        self._plotBenchmarkAlignment()
        self._plotSegments()
        self._drawGridForNotAlignedPositions()
        self._drawRemovedAlignedPositions()
        self._drawLegend()

    def _createFigure(self):
        self.figure: Figure = pyplot.figure()
        self.axes: Axes = self.figure.add_axes((0, 0, 1, 1))
        self.axes.set_aspect("equal")
        self.axes.ticklabel_format(style='plain')
        formatter = EngFormatter(unit="bp")
        self.axes.xaxis.set_major_formatter(formatter)
        self.axes.yaxis.set_major_formatter(formatter)

    def _setDimensions(self):
        margin = self.alignment.queryLength / 10
        drawPeakPositions = \
            list(map(lambda s: s.peak.leftProminenceBasePosition, self.alignment.segments)) \
            + [self.correlation.maxPeak.leftProminenceBasePosition] \
                if self.correlation and self.correlation.maxPeak and hasattr(self.alignment, "segments") else []

        self.overlapsWithBenchmark = \
            (not (self.benchmarkAlignment.referenceEndPosition < self.__referenceStartPosition
                  or self.__referenceEndPosition <= self.benchmarkAlignment.referenceStartPosition)) \
                if self.benchmarkAlignment else False

        alignmentStartPositions = [self.__referenceStartPosition]
        alignmentReferenceEndPositions = [self.__referenceEndPosition]

        self.yMinPlot = self.__queryStartPosition if self.options.limitQueryToAlignedArea else 0
        self.yMaxPlot = self.__queryEndPosition if self.options.limitQueryToAlignedArea else self.query.length

        self.yMinAxis = self.yMinPlot - margin
        self.yMinBorder = self.yMinAxis - margin
        self.yMaxAxis = self.yMaxPlot + margin

        if self.overlapsWithBenchmark:
            alignmentStartPositions.append(self.benchmarkAlignment.referenceStartPosition)
            alignmentReferenceEndPositions.append(self.benchmarkAlignment.referenceEndPosition)

        self.xMinPlot = min(alignmentStartPositions + drawPeakPositions)
        self.xMaxPlot = max(alignmentReferenceEndPositions)

        self.xMinAxis = self.xMinPlot - margin
        self.xMinBorder = self.xMinAxis - margin
        self.xMaxAxis = self.xMaxPlot + margin
        self.axes.set_xlim(self.xMinBorder, self.xMaxAxis)
        self.axes.set_ylim(self.yMinBorder, self.yMaxAxis)
        self.axes.set_yticks([y for y in self.axes.get_yticks() if y >= 0])
        self.plotAreaMask = Rectangle((self.xMinAxis, self.yMinAxis),
                                      self.xMaxPlot - self.xMinAxis,
                                      self.yMaxPlot - self.yMinAxis,
                                      facecolor='none', edgecolor='none')

        self.axes.add_patch(self.plotAreaMask)
        self.__setFigureSize()

    def __setFigureSize(self):
        scale = 45_000
        minSize = 10.
        maxSize = 60.
        xSize = (self.xMaxAxis - self.xMinBorder) / scale
        ySize = (self.yMaxAxis - self.yMinBorder) / scale
        xSizeClamped = min(max([xSize, minSize]), maxSize)
        ySizeClamped = min(max([ySize, minSize]), maxSize)
        self.figure.set_size_inches((xSizeClamped, ySizeClamped))

    def _plotReference(self):
        self.axes.set_xlabel(f"Reference {self.reference.moleculeId}")
        refLabelsInScope = [p for p in self.reference.getPositionsWithSiteIds()
                            if self._isReferencePositionInScope(p.position)]
        self.axes.plot([r.position for r in refLabelsInScope],
                       np.repeat(self.yMinAxis, len(refLabelsInScope)),
                       marker="|",
                       markersize=16,
                       markeredgewidth="2", linewidth=16, markeredgecolor="black",
                       color="yellow")

        for r in self.__skipDensePositions(refLabelsInScope):
            self.axes.annotate(str(r.siteId), (r.position, self.yMinAxis),
                               textcoords="offset points",
                               xytext=(0, -10),
                               ha="center",
                               va="top",
                               rotation=90)

    def _plotQuery(self):
        self.axes.set_ylabel(f"Query {self.query.moleculeId}")
        queryLabelsInScope = [p for p in self.query.getPositionsWithSiteIds()
                              if not self.options.limitQueryToAlignedArea or self._isQueryPositionInScope(p.position)]

        self.axes.plot(np.repeat(self.xMinAxis, len(queryLabelsInScope)), [q.position for q in queryLabelsInScope],
                       marker="_",
                       markersize=16,
                       markeredgewidth="2",
                       linewidth=16,
                       markeredgecolor="black",
                       color="lime")

        for q in self.__skipDensePositions(queryLabelsInScope):
            self.axes.annotate(str(q.siteId), (self.xMinAxis, q.position),
                               textcoords="offset points",
                               xytext=(-15, 0),
                               ha="right",
                               va="center")

    def _plotSegments(self):
        groupedSegments = groupby(self.alignment.segments, lambda s: s.peak)
        colors = self.__getContrastingColors(len(self.alignment.segments))

        for (peakNumber, (peak, segments)), color in zip(enumerate(groupedSegments), colors):
            self.__drawPeak(color, peak)
            for segmentNumber, segment in enumerate(segments):
                x = list(map(lambda p: p.reference.position, segment.alignedPositions))
                y = list(map(lambda p: self.__absoluteQueryPosition(p), segment.alignedPositions))
                self.__plotSegment(color, peak, peakNumber, segment, segmentNumber, x, y)
                self._drawGrid(x, y)

    def __drawPeak(self, color, peak: Peak):
        peakRectangle = Rectangle((peak.leftProminenceBasePosition, self.yMinBorder - 9999999999.),
                                  peak.width,
                                  self.yMaxAxis + 99999999999999.,
                                  color=color,
                                  alpha=0.2,
                                  angle=self.__drawPeakAngle,
                                  rotation_point=self.__drawPeakRotationPoint(peak))
        self.axes.add_patch(peakRectangle)
        peakRectangle.set_clip_path(self.plotAreaMask)

    def _drawPrimaryPeak(self):
        if not self.correlation and self.correlation.maxPeak:
            return

        peak = self.correlation.maxPeak
        x = [peak.position, self.xMaxPlot]
        y = [0, self.xMaxPlot - peak.position]

        def reverseY():
            return [self.query.length, self.query.length - (self.xMaxPlot - peak.position)]

        self.axes.plot(x, reverseY() if self.alignment.reverseStrand else y,
                       linestyle="dashdot",
                       marker=None,
                       color="black")

        peakRectangle = Rectangle((peak.leftProminenceBasePosition, self.yMinBorder - 9999999999.),
                                  peak.width,
                                  self.yMaxAxis + 99999999999999.,
                                  label="primary correlation",
                                  facecolor="wheat",
                                  edgecolor="black",
                                  linestyle="dashdot",
                                  linewidth=0.5,
                                  alpha=0.5,
                                  angle=self.__drawPeakAngle,
                                  rotation_point=self.__drawPeakRotationPoint(peak))
        self.axes.add_patch(peakRectangle)
        peakRectangle.set_clip_path(self.plotAreaMask)

    def _plotBenchmarkAlignment(self):
        if not self.benchmarkAlignment:
            return

        x, y = list(zip(*map(lambda p: (p.reference.position, p.query.position), self.benchmarkAlignment.alignedPairs)))
        self.axes.plot(x, y,
                       label=f"benchmark ({len(self.benchmarkAlignment.alignedPairs)} pairs, "
                             f"confidence: {self.benchmarkAlignment.confidence})",
                       color="gray",
                       markeredgecolor="gray",
                       fillstyle="none",
                       marker="o",
                       markersize=8,
                       linewidth=2)

        if self.overlapsWithBenchmark:
            self._drawGrid(x, y, lineStyle=(0, (1, 5)))

    def __plotSegment(self, color, peak: Peak, peakNumber: int, segment: AlignmentSegment, segmentNumber: int, x, y):
        self.axes.plot(x, y,
                       label=f" peak {peakNumber + 1} (height: {peak.height:.2f}), segment {segmentNumber + 1} "
                             f"({len(segment.alignedPositions)} pairs, score: {segment.segmentScore:.1f})",
                       marker="+",
                       markersize=16,
                       markeredgecolor=color,
                       linewidth=2,
                       color=color)

    def _drawGrid(self, x, y, xMax=None, yMax=None, lineStyle: str | Tuple = "--", label: str = None):
        self.axes.vlines(x, self.yMinAxis, xMax or y, linestyles=lineStyle, colors="gray", linewidth=0.5)
        self.axes.hlines(y, self.xMinAxis, yMax or x, linestyles=lineStyle, colors="gray", linewidth=0.5,
                         label=label)

    def __skipDensePositions(self, positions: List[PositionWithSiteId]):
        minDistance = (self.xMaxPlot - self.xMinPlot) / 150
        iterator = iter(positions)
        currentPosition = next(iterator, None)
        previousPosition: PositionWithSiteId | None = None
        while currentPosition is not None:
            if not previousPosition or currentPosition.position - previousPosition.position >= minDistance:
                yield currentPosition
                previousPosition = currentPosition
            currentPosition = next(iterator, None)

    @staticmethod
    def __getContrastingColors(count: int):
        colorMap = pyplot.get_cmap("plasma")
        contrasting = np.column_stack((np.linspace(0, .5, ceil(count / 2)),
                                       np.linspace(.5, 1, ceil(count / 2)))).flatten()
        return colorMap(contrasting)

    def _drawGridForNotAlignedPositions(self):
        if not self.options.drawGridForNotAlignedPositions or not hasattr(self.alignment, "segments"):
            return

        alignedPositions: List[BenchmarkAlignedPair] = \
            [position for segment in self.alignment.segments for position in segment.alignedPositions] \
            + ([pair for pair in self.benchmarkAlignment.alignedPairs] if self.benchmarkAlignment else [])

        x = [p for p in self.reference.positions if
             self._isReferencePositionInScope(p) and self.__isNotAlignedReference(p, alignedPositions)]
        y = [p for p in self.query.positions if
             self._isQueryPositionInScope(p) and self.__isNotAlignedQuery(p, alignedPositions)]
        self._drawGrid(x, y, self.yMaxPlot, self.xMaxPlot, lineStyle=(0, (15, 3)), label="not aligned positions")

    def _drawRemovedAlignedPositions(self):
        if not self.options.drawRemovedAlignedPositions or not hasattr(self.alignment, "segments"):
            return

        segmentsAlignedPositions: List[BenchmarkAlignedPair] = \
            [position for segment in self.alignment.segments for position in segment.alignedPositions]

        allAlignedPositions: List[AlignedPair] = \
            list(set(position for segment in self.alignment.segments for position in segment.allPeakPositions if
                     isinstance(position, AlignedPair)))

        removedAlignedPositions = sorted([p for p in allAlignedPositions if p not in segmentsAlignedPositions])

        self.axes.scatter(
            [p.reference.position for p in removedAlignedPositions],
            [self.__absoluteQueryPosition(p) for p in removedAlignedPositions],
            label=f"aligned pairs removed from segments ({len(removedAlignedPositions)} pairs)",
            marker="|",
            s=16 ** 2,
            c="orange")

        self.__annotateSources(removedAlignedPositions)

    def __annotateSources(self, positions):
        for position, groups in groupby(positions):
            samePositionsFromDifferentSources = list(groups)
            position = samePositionsFromDifferentSources[0]
            sources = map(str, sorted(map(lambda p: p.source, samePositionsFromDifferentSources)))
            self.axes.annotate(f"peak:{','.join(sources)}",
                               (position.reference.position, self.__absoluteQueryPosition(position)))

    def _drawLegend(self):
        if not self.options.hideLegend:
            self.axes.legend()

    @staticmethod
    def __isNotAlignedReference(position: int, alignedPositions: List[BenchmarkAlignedPair]):
        return position not in [ap.reference.position for ap in alignedPositions]

    @staticmethod
    def __isNotAlignedQuery(position: int, alignedPositions: List[BenchmarkAlignedPair]):
        return position not in [ap.query.position for ap in alignedPositions]

    def _isReferencePositionInScope(self, position: int):
        return self.xMinPlot <= position <= self.xMaxPlot

    def _isQueryPositionInScope(self, position: int):
        return self.yMinPlot <= position <= self.yMaxPlot

    def __absoluteQueryPosition(self, p: BenchmarkAlignedPair | AlignedPair):
        return self.alignment.queryLength - p.query.position if self.alignment.reverseStrand else p.query.position

    @property
    def __drawPeakAngle(self):
        return 45 if self.alignment.reverseStrand else -45.

    def __drawPeakRotationPoint(self, peak: Peak):
        return peak.position, self.query.length if self.alignment.reverseStrand else 0

    @property
    def __referenceStartPosition(self):
        return self.options.referenceStartPosition or self.alignment.referenceStartPosition

    @property
    def __referenceEndPosition(self):
        return self.options.referenceEndPosition or self.alignment.referenceEndPosition

    @property
    def __queryStartPosition(self):
        return self.options.queryStartPosition or self.alignment.queryStartPosition

    @property
    def __queryEndPosition(self):
        return self.options.queryEndPosition or self.alignment.queryEndPosition


class BenchmarkAlignmentPlot(AlignmentPlot):
    def __init__(self, reference: OpticalMap, query: OpticalMap, alignment: BenchmarkAlignment, options: Options = None):
        super().__init__(reference, query, alignment, None, None, options)

    def create(self):
        self._createFigure()
        self._setDimensions()
        self._plotReference()
        self._plotQuery()
        self._plotAlignment()
        self._drawLegend()

    def _plotAlignment(self):
        pairsInScope = (p for p in self.alignment.alignedPairs if
                        self._isReferencePositionInScope(p.reference.position) and
                        self._isQueryPositionInScope(p.query.position))

        x, y = list(zip(*map(lambda p: (p.reference.position, p.query.position), pairsInScope)))
        self.axes.plot(x, y,
                       label=f"({len(self.alignment.alignedPairs)} pairs, "
                             f"confidence: {self.alignment.confidence})",
                       color="red",
                       markeredgecolor="red",
                       fillstyle="none",
                       marker="o",
                       markersize=8,
                       linewidth=2)

        self._drawGrid(x, y)
