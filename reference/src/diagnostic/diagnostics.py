import os.path
from typing import TextIO, List

from matplotlib import pyplot as plt

from src.diagnostic.alignment_plot import AlignmentPlot
from src.diagnostic.plot import plotCorrelation, plotRefinedCorrelation
from src.extensions.extension import Extension
from src.extensions.messages import InitialAlignmentMessage, CorrelationResultMessage, AlignmentResultRowMessage, \
    MultipleAlignmentResultRowsMessage
from src.parsers.alignment_benchmark_reader import AlignmentBenchmarkReader


class DiagnosticsWriter:
    def __init__(self, outputFile: TextIO):
        if outputFile.name == '<stdout>':
            raise ValueError("outputFile is required")
        self.outputDir = os.path.splitext(outputFile.name)[0] + "_diagnostics"
        os.makedirs(self.outputDir, exist_ok=True)

    def savePlot(self, fig, fileName: str):
        fig.savefig(os.path.join(self.outputDir, fileName), bbox_inches='tight',
                    pad_inches=0)
        plt.close(fig)


class PrimaryCorrelationPlotter(Extension):
    messageType = InitialAlignmentMessage

    def __init__(self, writer: DiagnosticsWriter):
        self.writer = writer

    def handle(self, message: InitialAlignmentMessage):
        fig = plotCorrelation(message.data)
        self.writer.savePlot(fig, f"primary_cor_{message.data.query.moleculeId}"
                                  f"{'_reverse' if message.data.reverseStrand else ''}.svg")


class SecondaryCorrelationPlotter(Extension):
    messageType = CorrelationResultMessage

    def __init__(self, writer: DiagnosticsWriter):
        self.writer = writer

    def handle(self, message: CorrelationResultMessage):
        fig = plotRefinedCorrelation(message.initialAlignment, message.refinedAlignment)
        self.writer.savePlot(fig, f"secondary_cor_{message.refinedAlignment.query.moleculeId}_{message.index}.svg")


class AlignmentPlotter(Extension):
    messageType = AlignmentResultRowMessage

    def __init__(self, writer: DiagnosticsWriter, benchmarkReader: AlignmentBenchmarkReader, benchmarkFile: TextIO):
        self.writer = writer
        self.benchmarkReader = benchmarkReader
        self.benchmarkFile = benchmarkFile

    def handle(self, message: AlignmentResultRowMessage):
        if not message.alignment.alignedPairs:
            return

        benchmarkAlignment = self.getBenchmarkAlignment(message)
        plot = AlignmentPlot(message.reference, message.query, message.alignment, message.correlation,
                             benchmarkAlignment)

        self.writer.savePlot(plot.figure, f"Alignment_ref_{message.reference.moleculeId}_query"
                                          f"_{message.query.moleculeId}_{message.index}.svg")

    def getBenchmarkAlignment(self, message):
        if not self.benchmarkFile:
            return None
        return next(
            iter(self.benchmarkReader.read(self.benchmarkFile, queryIds=[message.query.moleculeId])))


class MultipleAlignmentsPlotter(Extension):
    messageType = MultipleAlignmentResultRowsMessage

    def __init__(self, writer: DiagnosticsWriter, benchmarkReader: AlignmentBenchmarkReader, benchmarkFile: TextIO):
        self.writer = writer
        self.benchmarkReader = benchmarkReader
        self.benchmarkAlignmentFile = benchmarkFile

    def handle(self, message: MultipleAlignmentResultRowsMessage):
        aligned = [m for m in message.messages if m.alignment.alignedPairs]
        if not aligned:
            return

        benchmarkAlignments = self.getBenchmarkAlignment([m.query.moleculeId for m in aligned])
        for m in aligned:
            plot = AlignmentPlot(m.reference, m.query, m.alignment, m.correlation,
                                 next((a for a in benchmarkAlignments if a.queryId == m.query.moleculeId), None))

            self.writer.savePlot(plot.figure, f"Alignment_ref_{m.reference.moleculeId}_query"
                                              f"_{m.query.moleculeId}_{m.index}.svg")

    def getBenchmarkAlignment(self, queryIds: List[int]):
        if not self.benchmarkAlignmentFile:
            return []
        return self.benchmarkReader.read(self.benchmarkAlignmentFile, queryIds=queryIds)
