import math
from typing import List, Tuple, Union

import matplotlib.patches as patches
import numpy as np
import seaborn as sns
from matplotlib import cycler, pyplot, rcParams  # type: ignore
from matplotlib.axes import Axes
from matplotlib.figure import Figure
from matplotlib.ticker import FuncFormatter
from scipy.interpolate import interp1d

from src.correlation.optical_map import CorrelationResult
from src.correlation.peak import Peak

rcParams["lines.linewidth"] = 1
rcParams['axes.prop_cycle'] = cycler(color=["#e74c3c"])


def plotCorrelation(correlationResult: CorrelationResult,
                    expectedReferenceRanges: Union[List[Tuple[int, int]], Tuple[int, int]] = None) -> Figure:
    plot, _ = __plotCorrelation(correlationResult, correlationResult.resolution, expectedReferenceRanges)
    return plot


def plotRefinedCorrelation(initialCorrelationResult: CorrelationResult,
                           refinedCorrelationResult: CorrelationResult) -> Figure:
    fig, ax = __plotCorrelation(refinedCorrelationResult, refinedCorrelationResult.resolution)
    ax2 = ax.twinx()
    margin = 30000
    leftMargin = min(margin, refinedCorrelationResult.correlationStart)
    rightMargin = min(margin, initialCorrelationResult.correlationEnd - refinedCorrelationResult.correlationEnd)
    initialCorrelationStart = round(
        (refinedCorrelationResult.correlationStart - leftMargin) / initialCorrelationResult.resolution)
    initialCorrelationEnd = round(
        (refinedCorrelationResult.correlationEnd + rightMargin) / initialCorrelationResult.resolution)
    initialCorrelationFragment = initialCorrelationResult.correlation[initialCorrelationStart:initialCorrelationEnd]
    interpolated = interp1d(np.arange(initialCorrelationFragment.size), initialCorrelationFragment, kind='nearest')
    marginInRefinedCorrelationCoordinates = math.ceil((rightMargin + leftMargin) / refinedCorrelationResult.resolution)
    stretched = interpolated(np.linspace(
        0, initialCorrelationFragment.size - 1,
           refinedCorrelationResult.correlation.size + marginInRefinedCorrelationCoordinates))
    xStart = refinedCorrelationResult.correlationStart - leftMargin
    xEnd = refinedCorrelationResult.correlationEnd + rightMargin
    ax2.set_xlim(left=xStart, right=xEnd)
    ax2.set_ylim(bottom=0, top=stretched.max(initial=0) * 1.1)
    x = range(xStart, xEnd, refinedCorrelationResult.resolution)
    ax2.fill_between(x, stretched, alpha=0.25)
    __plotPeaks(initialCorrelationResult, ax2, maxAnnotations=0, marker="*")
    return fig


def __plotCorrelation(correlationResult: CorrelationResult,
                      resolution: int,
                      expectedReferenceRanges: Union[List[Tuple[int, int]], Tuple[int, int]] = None) \
        -> Tuple[Figure, Axes]:
    fig: Figure = pyplot.figure(figsize=(20, 4))
    ax: Axes = fig.add_axes((0, 0, 1, 1))
    ax.ticklabel_format(style='plain')
    ax.xaxis.set_major_formatter(FuncFormatter(lambda value, p: format(int(value), ',')))

    ax.set_xlim(correlationResult.correlationStart, correlationResult.correlationEnd)
    ax.set_ylim(bottom=0, top=correlationResult.correlation.max(initial=0) * 1.1)

    if expectedReferenceRanges:
        if isinstance(expectedReferenceRanges, tuple):
            expectedReferenceRanges = [expectedReferenceRanges]
        for expectedRange in expectedReferenceRanges:
            __addExpectedStartStopRect(ax, expectedRange, correlationResult)

    x = range(correlationResult.correlationStart, correlationResult.correlationEnd, resolution)
    ax.plot(x, correlationResult.correlation)

    __plotPeaks(correlationResult, ax)
    __markPeakBaseLevel(ax, correlationResult)

    return fig, ax


def __plotPeaks(correlationResult: CorrelationResult, ax: Axes, maxAnnotations=5, marker: str = "x"):
    sortedPeaks = sorted([peak for peak in correlationResult.peaks if peak.height >= correlationResult.peakBaseLevel],
                         key=lambda p: p.score, reverse=True)
    if not sortedPeaks:
        return

    maxPeak = sortedPeaks[0]
    ax.plot(maxPeak.position, maxPeak.height, marker, markersize=24, markeredgewidth=4)
    __plotSuboptimalPeaks(ax, sortedPeaks[1:maxAnnotations], 0.6, marker)
    __plotSuboptimalPeaks(ax, sortedPeaks[maxAnnotations:], 0.3, marker)

    peaksToAnnotate = sortedPeaks[:maxAnnotations]
    for i, peak in enumerate(peaksToAnnotate):
        ax.annotate(f"({int(peak.position / 1000):,}K, {peak.height:.2f}), s:{peak.score:.3f}",
                    (peak.position, peak.height), rotation=-45, ha="center", va="top")


def __plotSuboptimalPeaks(ax, peaks: List[Peak], alpha: float, marker: str):
    if peaks:
        ax.plot([p.position for p in peaks], [p.height for p in peaks], marker,
                markersize=16, markeredgewidth=4, alpha=alpha)


def __markPeakBaseLevel(ax, correlationResult):
    ax.hlines(correlationResult.peakBaseLevel,
              correlationResult.correlationStart,
              correlationResult.correlationEnd,
              linestyles="--",
              colors="black")


def __addExpectedStartStopRect(ax, expectedReferenceRange: Tuple[int, int], peaks: CorrelationResult):
    start = (expectedReferenceRange[0], 0)
    width = expectedReferenceRange[1] - expectedReferenceRange[0]
    height = peaks.correlation.max(initial=0)

    rect = patches.Rectangle(start, width, height, edgecolor="none", facecolor="black", alpha=0.2)  # type: ignore
    ax.add_patch(rect)

    ax.text(expectedReferenceRange[0], 0, str(expectedReferenceRange[0]), horizontalalignment='left',
            verticalalignment='top')

    ax.text(expectedReferenceRange[1], 0, str(expectedReferenceRange[1]), horizontalalignment='left',
            verticalalignment='top')


def plotHeatMap(arr, fileName, x, y, title=None):
    pyplot.clf()
    ax = sns.heatmap(arr, linewidth=0.5, annot=True,
                     xticklabels=[int(x) for x in x],
                     yticklabels=y, fmt='.3f',
                     vmin=0.2, vmax=1,
                     cmap=sns.color_palette("vlag", as_cmap=True))
    ax.set_xlabel("Blur"),
    ax.set_ylabel("Resolution")
    ax.set_title(title)
    ax.get_figure().savefig(fileName)
