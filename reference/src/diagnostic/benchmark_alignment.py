from __future__ import annotations

from abc import ABC
from dataclasses import dataclass, field
from typing import NamedTuple, List


class BenchmarkAlignmentPosition(NamedTuple):
    siteId: int
    position: int


@dataclass(frozen=True)
class BenchmarkAlignedPair:
    reference: BenchmarkAlignmentPosition
    query: BenchmarkAlignmentPosition

    @staticmethod
    def create(reference: str, query: str):
        return BenchmarkAlignedPair(BenchmarkAlignmentPosition(int(reference), 0), BenchmarkAlignmentPosition(int(query), 0))

    @staticmethod
    def referenceSiteIdSelector(pair: BenchmarkAlignedPair):
        return pair.reference.siteId

    @staticmethod
    def querySiteIdSelector(pair: BenchmarkAlignedPair):
        return pair.query.siteId

    def toString(self, includePositions: bool):
        return self.__repr__()

    def __repr__(self) -> str:
        return f"({self.reference.siteId}, {self.query.siteId})"


@dataclass(frozen=True)
class BenchmarkAlignedPairWithDistance(BenchmarkAlignedPair):
    distance: int = field(compare=False)

    @staticmethod
    def calculateDistance(pair: BenchmarkAlignedPair, firstPair: BenchmarkAlignedPair | None, reverseStrand: bool):
        def queryDifference():
            return firstPair.query.position - pair.query.position if reverseStrand else pair.query.position - firstPair.query.position

        distance = queryDifference() - (pair.reference.position - firstPair.reference.position) if firstPair else 0
        return BenchmarkAlignedPairWithDistance(pair.reference, pair.query, distance)

    def toString(self, includePositions: bool):
        return self.__repr__() if includePositions else super().__repr__()

    def __repr__(self) -> str:
        return f"({self.reference.siteId}, {int(self.reference.position)}, {self.query.siteId}, " \
               f"{int(self.reference.position)}, {round(self.distance)})"


class BenchmarkAlignment(ABC):
    queryId: int
    referenceId: int
    queryStartPosition: int
    queryEndPosition: int
    referenceStartPosition: int
    referenceEndPosition: int
    reverseStrand: bool
    confidence: float
    cigarString: str
    queryLength: int
    referenceLength: int
    alignedPairs: List[BenchmarkAlignedPair]
    null: BenchmarkAlignment

    @property
    def orientation(self):
        return "-" if self.reverseStrand else "+"


class _NullBenchmarkAlignment(BenchmarkAlignment):
    queryId: int = 0
    referenceId: int = 0
    queryStartPosition: int = 0
    queryEndPosition: int = 0
    referenceStartPosition: int = 0
    referenceEndPosition: int = 0
    reverseStrand: bool = False
    confidence: float = 0.
    cigarString: str = ""
    queryLength: int = 0
    referenceLength: int = 0
    alignedPairs: List[BenchmarkAlignedPair] = []

    @property
    def orientation(self):
        return "None"


BenchmarkAlignment.null = _NullBenchmarkAlignment()
