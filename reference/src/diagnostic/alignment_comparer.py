from __future__ import annotations

import statistics
from dataclasses import dataclass
from difflib import SequenceMatcher
from enum import Enum
from itertools import groupby
from typing import List, Dict, TextIO

import pandas as pd
from pandas import DataFrame

from src.diagnostic.benchmark_alignment import BenchmarkAlignment, BenchmarkAlignedPair


class AlignmentComparison:
    avgOverlappingAlignment1Coverage: float
    avgOverlappingAlignment2Coverage: float
    avgOverlappingIdentity: float
    overlapping: int
    nonOverlapping: int
    firstOnly: int
    secondOnly: int
    rows: List[AlignmentRowComparison]
    null: AlignmentComparison

    def __init__(self, avgAlignment1Coverage: float,
                 avgAlignment2Coverage: float,
                 avgIdentity: float,
                 overlapping: int,
                 nonOverlapping: int,
                 firstOnly: int,
                 secondOnly: int,
                 rows: List[AlignmentRowComparison]):
        self.avgOverlappingAlignment1Coverage = avgAlignment1Coverage
        self.avgOverlappingAlignment2Coverage = avgAlignment2Coverage
        self.avgOverlappingIdentity = avgIdentity
        self.overlapping = overlapping
        self.nonOverlapping = nonOverlapping
        self.firstOnly = firstOnly
        self.secondOnly = secondOnly
        self.rows = rows

    @staticmethod
    def create(rows: List[AlignmentRowComparison]):
        if not rows:
            return AlignmentComparison.null

        overlappingRows = [row for row in rows if row.overlapping]
        return AlignmentComparison(
            statistics.fmean(map(lambda row: row.alignment1Coverage, overlappingRows)) if overlappingRows else 0,
            statistics.fmean(map(lambda row: row.alignment2Coverage, overlappingRows)) if overlappingRows else 0,
            statistics.fmean(map(lambda row: row.identity, overlappingRows)) if overlappingRows else 0,
            len(overlappingRows),
            sum(1 for row in rows if row.type == AlignmentRowComparisonResultType.BOTH and not row.overlapping),
            sum(1 for row in rows if row.type == AlignmentRowComparisonResultType.FIRST_ONLY),
            sum(1 for row in rows if row.type == AlignmentRowComparisonResultType.SECOND_ONLY),
            rows)

    def write(self, file: TextIO, includePositions: bool):
        file.writelines([
            f"# AvgOverlappingAlignment1Coverage\t{self.avgOverlappingAlignment1Coverage}\n",
            f"# AvgOverlappingAlignment2Coverage\t{self.avgOverlappingAlignment2Coverage}\n",
            f"# AvgOverlappingIdentity\t{self.avgOverlappingIdentity}\n",
            f"# Overlapping\t{self.overlapping}\n",
            f"# NonOverlapping\t{self.nonOverlapping}\n",
            f"# FirstOnly\t{self.firstOnly}\n",
            f"# SecondOnly\t{self.secondOnly}\n"
        ])

        alignmentHeaderDescription = "(referenceID, referencePosition, queryID, queryPosition, distance)" \
            if includePositions else "(referenceID, queryID)"

        headers = [
            "QryContigID",
            "RefContigID",
            "Type",
            "Identity",
            "Alignment1Coverage",
            "Alignment2Coverage",
            "Orientation",
            f"Alignment1Diff {alignmentHeaderDescription}",
            f"Alignment2Diff {alignmentHeaderDescription}",
            f"Alignment1 {alignmentHeaderDescription}",
            f"Alignment2 {alignmentHeaderDescription}"
        ]
        file.write("\t".join([header for header in ["#"] + headers]) + "\n")

        data = [[
            row.queryId,
            row.referenceId,
            row.type.name,
            "{:.3f}".format(row.identity),
            "{:.3f}".format(row.alignment1Coverage),
            "{:.3f}".format(row.alignment2Coverage),
            row.orientation,
            "".join([r.toString(includePositions) for r in row.alignment1ExclusivePairs]) if row.overlapping else "",
            "".join([r.toString(includePositions) for r in row.alignment2ExclusivePairs]) if row.overlapping else "",
            "".join([r.toString(includePositions) for r in row.alignment1.alignedPairs]),
            "".join([r.toString(includePositions) for r in row.alignment2.alignedPairs])
        ] for row in self.rows]

        dataFrame = DataFrame(data, columns=headers, index=pd.RangeIndex(start=1, stop=len(self.rows) + 1))
        dataFrame.to_csv(file, sep='\t', header=False, mode="a", lineterminator="\n")


class _NullAlignmentComparison(AlignmentComparison):
    def __init__(self):
        super().__init__(0., 0., 0., 0, 0, 0, 0, [])

    def write(self, file: TextIO, includePositions: bool):
        return


AlignmentComparison.null = _NullAlignmentComparison()


class AlignmentRowComparisonResultType(Enum):
    BOTH = 1,
    FIRST_ONLY = 2,
    SECOND_ONLY = 3


@dataclass
class AlignmentRowComparison:
    type: AlignmentRowComparisonResultType
    alignment1: BenchmarkAlignment
    alignment2: BenchmarkAlignment
    alignment1ExclusivePairs: List[BenchmarkAlignedPair]
    alignment2ExclusivePairs: List[BenchmarkAlignedPair]
    alignment1Coverage: float
    alignment2Coverage: float
    identity: float

    @property
    def queryId(self):
        return self.alignment1.queryId or self.alignment2.queryId

    @property
    def referenceId(self):
        return self.alignment1.referenceId or self.alignment2.referenceId

    @property
    def orientation(self):
        return self.alignment1.orientation \
            if self.alignment1.orientation == self.alignment2.orientation \
            else f"{self.alignment1.orientation}/{self.alignment2.orientation}"

    @property
    def overlapping(self):
        return self.identity > 0.

    @staticmethod
    def alignment1Only(alignment1: BenchmarkAlignment):
        return AlignmentRowComparison(
            AlignmentRowComparisonResultType.FIRST_ONLY, alignment1, BenchmarkAlignment.null, [], [], 0., 0., 0.)

    @staticmethod
    def alignment2Only(alignment2: BenchmarkAlignment):
        return AlignmentRowComparison(
            AlignmentRowComparisonResultType.SECOND_ONLY, BenchmarkAlignment.null, alignment2, [], [], 0., 0., 0.)


class AlignmentComparer:
    def __init__(self, rowComparer: AlignmentRowComparer):
        self.__rowComparer = rowComparer

    def compare(self, alignments1: List[BenchmarkAlignment], alignments2: List[BenchmarkAlignment]):
        alignments1Dict = self.__toDict(alignments1)
        alignments2Dict = self.__toDict(alignments2)
        comparedRows = [self.__rowComparer.compare(a1, alignments2Dict[key]) for key, a1 in alignments1Dict.items() if
                        key in alignments2Dict]
        alignments1OnlyRows = [AlignmentRowComparison.alignment1Only(a1) for a1
                               in self.__getNotMatchingAlignments(alignments1Dict, alignments2Dict)]
        alignments2OnlyRows = [AlignmentRowComparison.alignment2Only(a2) for a2
                               in self.__getNotMatchingAlignments(alignments2Dict, alignments1Dict)]
        return AlignmentComparison.create(comparedRows + alignments1OnlyRows + alignments2OnlyRows)

    @staticmethod
    def __toDict(alignments: List[BenchmarkAlignment]) -> Dict[(int, int), BenchmarkAlignment]:
        return {(a.queryId, a.referenceId): a for a in sorted(alignments, key=lambda a: (a.referenceId, a.queryId))}

    @staticmethod
    def __getNotMatchingAlignments(source: Dict[(int, int), BenchmarkAlignment],
                                   target: Dict[(int, int), BenchmarkAlignment]):
        return [a1 for key, a1 in source.items() if key not in target]


class AlignmentRowComparer:
    def __init__(self, combineMultipleQuerySources: bool):
        self.combineMultipleQuerySources = combineMultipleQuerySources

    def compare(self, alignment1: BenchmarkAlignment, alignment2: BenchmarkAlignment):
        alignment1Pairs = self.__combineMultipleQuerySources(alignment1.alignedPairs, alignment2.alignedPairs)
        alignment2Pairs = self.__combineMultipleQuerySources(alignment2.alignedPairs, alignment1.alignedPairs)
        difference1 = self.__getDifference(alignment1Pairs, alignment2Pairs)
        coverage1 = self.__getCoverage(alignment1Pairs, difference1)
        difference2 = self.__getDifference(alignment2Pairs, alignment1Pairs)
        coverage2 = self.__getCoverage(alignment2Pairs, difference2)

        ratio = self.__getIdentityRatio(alignment1Pairs, alignment2Pairs)
        return AlignmentRowComparison(
            AlignmentRowComparisonResultType.BOTH, alignment1, alignment2, difference1, difference2, coverage1,
            coverage2, ratio)

    def __combineMultipleQuerySources(self, pairs: List[BenchmarkAlignedPair], otherPairs: List[BenchmarkAlignedPair]):
        if not self.combineMultipleQuerySources:
            return pairs

        alignmentsPerQuery = [
            self.__removeExtraAlignmentsWithSameQueryIfOneOfThemIsInOtherList(list(alignmentsWithSameQuery), otherPairs)
            for _, alignmentsWithSameQuery in groupby(pairs, BenchmarkAlignedPair.querySiteIdSelector)]
        return [a for alignments in alignmentsPerQuery for a in alignments]

    @staticmethod
    def __getIdentityRatio(alignment1Pairs: List[BenchmarkAlignedPair], alignment2Pairs: List[BenchmarkAlignedPair]):
        matcher = SequenceMatcher(None, alignment1Pairs, alignment2Pairs)
        ratio = matcher.ratio()
        return ratio

    @staticmethod
    def __getDifference(pairs: List[BenchmarkAlignedPair], otherPairs: List[BenchmarkAlignedPair]):
        return sorted(set(pairs).difference(set(otherPairs)), key=BenchmarkAlignedPair.referenceSiteIdSelector)

    @staticmethod
    def __removeExtraAlignmentsWithSameQueryIfOneOfThemIsInOtherList(
            alignmentsWithSameQuery: List[BenchmarkAlignedPair], otherPairs: List[BenchmarkAlignedPair]):
        return [a for a in alignmentsWithSameQuery if a in otherPairs] or alignmentsWithSameQuery

    @staticmethod
    def __getCoverage(pairs: List[BenchmarkAlignedPair], difference: List[BenchmarkAlignedPair]):
        pairsLength = len(pairs)
        return (pairsLength - len(difference)) / pairsLength if pairsLength > 0 else 1.
