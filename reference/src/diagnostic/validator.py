from __future__ import annotations

from src.correlation.bionano_alignment import BionanoAlignment
from src.correlation.peak import Peak


class Validator:
    def __init__(self, resolution: int, tolerance: int = 1024) -> None:
        self.resolution = resolution
        self.tolerance = tolerance

    def validate(self, peak: Peak | None, reference: BionanoAlignment):
        if not peak:
            return False

        return self.__peakWithinAlignmentSizeUncertainty(peak, reference)

    def __peakWithinAlignmentSizeUncertainty(self, peak: Peak, reference: BionanoAlignment):
        margin = abs(reference.queryReferenceAlignmentLengthDifference) / 2 + self.tolerance
        return reference.referenceStartPosition - margin <= peak.position <= reference.referenceStartPosition + margin
