from itertools import zip_longest
from typing import List

import numpy as np


def vectorisePositions(positions: List[int], resolution: int = 100, start: int = 0, end: int = None):
    if not isinstance(resolution, int) or resolution < 1:
        raise ValueError(resolution)
    end = end or positions[-1]
    window_start = start
    window_end = window_start + resolution
    for position in positions:
        if position < window_start:
            continue
        while position >= window_end:
            window_start += resolution
            window_end += resolution
            yield 0
            if window_start > end:
                return

        yield 1
        window_start += resolution
        window_end += resolution


def blur(vector: List[int], radius: int) -> np.ndarray:
    if not isinstance(radius, int) or radius < 0:
        raise ValueError(radius)

    shifts = range(1, radius + 1)
    shiftedVectors = [vector]
    for shift in shifts:
        shiftedVectors.append(vector[shift:])
        shiftedVectors.append(shift * [0] + vector)

    return np.array(
        [1 if any(position) else 0 for position in zip_longest(*shiftedVectors, fillvalue=0)][0: len(vector)])
