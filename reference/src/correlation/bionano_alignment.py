from typing import List

from src.diagnostic.benchmark_alignment import BenchmarkAlignment, BenchmarkAlignedPair


class BionanoAlignment(BenchmarkAlignment):
    def __init__(self, alignmentId, queryId, refId, queryStart, queryEnd, refStart, refEnd, reverseStrand, confidence,
                 cigarString, queryLength, referenceLength, alignedPairs: List[BenchmarkAlignedPair]) -> None:
        self.alignmentId = alignmentId
        self.queryId = queryId
        self.referenceId = refId
        self.queryStartPosition = queryStart
        self.queryEndPosition = queryEnd
        self.referenceStartPosition = refStart
        self.referenceEndPosition = refEnd
        self.reverseStrand = reverseStrand
        self.confidence = confidence
        self.cigarString = cigarString
        self.queryLength = queryLength
        self.referenceLength = referenceLength
        self.alignedPairs = alignedPairs

    @staticmethod
    def parse(alignmentId, queryId, refId, queryStart, queryEnd, refStart, refEnd, reverseStrand, confidence,
              cigarString, queryLength, referenceLength, alignment: List[BenchmarkAlignedPair]):
        return BionanoAlignment(
            alignmentId,
            int(queryId),
            int(refId),
            int(queryStart),
            int(queryEnd),
            int(refStart),
            int(refEnd),
            reverseStrand,
            confidence,
            cigarString,
            int(queryLength),
            int(referenceLength),
            alignment)

    @property
    def expectedQueryMoleculeStart(self):
        return self.referenceStartPosition - self.__queryStartPositionDisregardingOrientation

    @property
    def expectedQueryMoleculeEnd(self):
        return self.referenceEndPosition + self.queryLength - self.__queryEndPositionDisregardingOrientation

    @property
    def queryReferenceAlignmentLengthDifference(self):
        """Alignment length on reference and query sequences may differ due to indels and molecule stretch"""
        return (self.queryAlignmentLength()) - (self.referenceAlignmentLength())

    def referenceAlignmentLength(self):
        return abs(self.referenceEndPosition - self.referenceStartPosition)

    def queryAlignmentLength(self):
        return abs(self.__queryEndPositionDisregardingOrientation - self.__queryStartPositionDisregardingOrientation)

    @property
    def __queryStartPositionDisregardingOrientation(self):
        return self.queryLength - self.queryStartPosition if self.reverseStrand else self.queryStartPosition

    @property
    def __queryEndPositionDisregardingOrientation(self):
        return self.queryLength - self.queryEndPosition if self.reverseStrand else self.queryEndPosition
