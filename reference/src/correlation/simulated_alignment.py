from typing import List

from src.correlation.bionano_alignment import BionanoAlignment
from src.diagnostic.benchmark_alignment import BenchmarkAlignment, BenchmarkAlignedPair


class SimulatedAlignment(BenchmarkAlignment):
    def __init__(self, alignmentId, queryId, refId, queryStart, queryEnd, refStart, refEnd, reverseStrand, confidence,
                 cigarString, queryLength, referenceLength, alignedPairs: List[BenchmarkAlignedPair]) -> None:
        self.alignmentId = alignmentId
        self.queryId = queryId
        self.referenceId = refId
        self.queryStartPosition = queryStart
        self.queryEndPosition = queryEnd
        self.referenceStartPosition = refStart
        self.referenceEndPosition = refEnd
        self.reverseStrand = reverseStrand
        self.confidence = confidence
        self.cigarString = cigarString
        self.queryLength = queryLength
        self.referenceLength = referenceLength
        self.alignedPairs = alignedPairs

    @staticmethod
    def parse(alignmentId, queryId, refId, queryStart, queryEnd, refStart, refEnd, reverseStrand, confidence,
              cigarString, queryLength, referenceLength, alignment: List[BenchmarkAlignedPair]):
        return BionanoAlignment(
            alignmentId,
            int(queryId),
            int(refId),
            int(queryStart),
            int(queryEnd),
            int(refStart),
            int(refEnd),
            reverseStrand,
            confidence,
            cigarString,
            int(queryLength),
            int(referenceLength),
            alignment)
