from dataclasses import dataclass
from typing import List, Iterator

from src.correlation.optical_map import InitialAlignment
from src.correlation.peak import Peak


@dataclass
class SelectedPeak:
    primaryCorrelation: InitialAlignment
    peak: Peak


class PeaksSelector:
    def __init__(self, count: int):
        self.count = count

    def selectPeaks(self, correlations: Iterator[InitialAlignment]) -> List[SelectedPeak]:
        peaks = (SelectedPeak(c, p) for c in correlations for p in c.peaks)
        topPeaks = sorted(peaks, key=lambda sp: sp.peak.score, reverse=True)[0:self.count]
        return topPeaks
