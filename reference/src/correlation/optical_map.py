from __future__ import annotations

import warnings
from dataclasses import dataclass
from math import ceil
from typing import List

import numpy as np
from scipy.signal import find_peaks, correlate

from src.correlation.peak import Peak
from src.correlation.sequence_generator import SequenceGenerator

warnings.simplefilter("ignore")


@dataclass(frozen=True)
class PositionWithSiteId:
    siteId: int
    position: int

    def __lt__(self, other: PositionWithSiteId):
        return self.position < other.position


def toRelativeGenomicPositions(correlationCoordinates: np.ndarray, resolution: int, start: int = 0) -> np.ndarray:
    resolutionAdjustment = ceil(resolution / 2) - 1
    return correlationCoordinates * resolution + (resolutionAdjustment + start)


@dataclass(frozen=True)
class OpticalMap:
    moleculeId: int
    length: int
    positions: List[int]
    shift: int = 0

    def trim(self):
        if not self.positions:
            return self
        return OpticalMap(self.moleculeId,
                          self.positions[-1] - self.positions[0] + 1,
                          list(map(lambda p: p - self.positions[0], self.positions)))

    def getPositionsWithSiteIds(self, reverse: bool = False):
        if reverse:
            i = len(self.positions) + self.shift
            moleculeEndPosition = self.length - 1
            for position in self.positions[::-1]:
                yield PositionWithSiteId(i, moleculeEndPosition - position)
                i -= 1
        else:
            i = 1 + self.shift
            for position in self.positions:
                yield PositionWithSiteId(i, position)
                i += 1

    def getInitialAlignment(self, reference: OpticalMap, sequenceGenerator: SequenceGenerator, minPeakDistance: int,
                            peaksCount: int, reverseStrand=False):
        if self.length > reference.length:
            return EmptyInitialAlignment(self, reference, sequenceGenerator.resolution, sequenceGenerator.blurRadius)

        sequence = self.getSequence(sequenceGenerator, reverseStrand)
        referenceSequence = reference.getSequence(sequenceGenerator)
        correlation = self.__getCorrelation(referenceSequence, sequence)

        normalizingFactor = (self.__getCorrelation(referenceSequence, np.ones(len(sequence))) + np.sum(sequence)) / 2
        correlation = correlation / normalizingFactor

        with warnings.catch_warnings():
            warnings.simplefilter("ignore")
            peakPositions, peakProperties = find_peaks(
                correlation,
                height=0.75 * np.max(correlation),
                width=(None, None),
                rel_height=0.5,
                distance=(minPeakDistance / sequenceGenerator.resolution))

        return InitialAlignment.create(correlation, self, reference, peakPositions, peakProperties, peaksCount,
                                       reverseStrand,
                                       sequenceGenerator.resolution, sequenceGenerator.blurRadius, 0,
                                       len(correlation) * sequenceGenerator.resolution)

    def getSequence(self, sequenceGenerator: SequenceGenerator, reverseStrand=False, start: int = 0, end: int = None):
        sequence = sequenceGenerator.positionsToSequence(self.positions, start, end)
        return sequence[::-1] if reverseStrand else sequence

    @staticmethod
    def __getCorrelation(reference: np.ndarray, query: np.ndarray) -> np.ndarray:
        return correlate(reference, query, mode='valid', method='fft')


class CorrelationResult:
    @staticmethod
    def create(correlation: np.ndarray,
               query: OpticalMap,
               reference: OpticalMap,
               peakPositions: np.ndarray,
               peakProperties: dict,
               peaksCount: int,
               reverseStrand: bool,
               resolution: int = 1,
               blur: int = 0,
               correlationStart: int = 0,
               correlationEnd: int = None,
               peakHeightThreshold: float = None):
        return CorrelationResult(
            correlation,
            query,
            reference,
            CorrelationResult.createPeaks(peakPositions, peakProperties, resolution, correlationStart, 0, peaksCount),
            reverseStrand,
            peakHeightThreshold,
            resolution,
            blur,
            correlationStart,
            correlationEnd or len(correlation) - 1)

    def __init__(self,
                 correlation: np.ndarray,
                 query: OpticalMap,
                 reference: OpticalMap,
                 peaks: List[Peak],
                 reverseStrand: bool,
                 noiseLevel: float,
                 resolution: int = 1,
                 blur: int = 0,
                 correlationStart: int = 0,
                 correlationEnd: int = None):
        self.correlation = correlation
        self.query = query
        self.reference = reference
        self.peaks = peaks
        self.reverseStrand = reverseStrand
        self.peakBaseLevel = noiseLevel
        self.resolution = resolution
        self.blur = blur
        self.correlationStart = correlationStart
        self.correlationEnd = correlationEnd

    @staticmethod
    def createPeaks(peakPositions: np.ndarray, peakProperties: dict, resolution: int, correlationStart: int,
                    noiseLevel: float, peaksCount: int):
        if peaksCount < peakPositions.size:
            bestPeaksIndices = np.argpartition(-peakProperties["peak_heights"], peaksCount)[:peaksCount]
        else:
            bestPeaksIndices = np.arange(peakPositions.size)
        return [Peak(position, height, leftBase, rightBase, height - noiseLevel)
                for position, height, leftBase, rightBase
                in zip(toRelativeGenomicPositions(peakPositions[bestPeaksIndices], resolution, correlationStart),
                       peakProperties["peak_heights"][bestPeaksIndices],
                       toRelativeGenomicPositions(peakProperties["left_ips"][bestPeaksIndices], resolution,
                                                  correlationStart),
                       toRelativeGenomicPositions(peakProperties["right_ips"][bestPeaksIndices], resolution,
                                                  correlationStart))]

    @staticmethod
    def rootMeanSquare(array: np.ndarray) -> float:
        return np.sqrt(np.mean(array[array != 0] ** 2))

    def getScore(self):
        return self.maxPeak.score if self.maxPeak else 0

    @property
    def maxPeak(self):
        return max(self.peaks, key=lambda p: p.height, default=None)


class InitialAlignment(CorrelationResult):
    @staticmethod
    def create(correlation: np.ndarray,
               query: OpticalMap,
               reference: OpticalMap,
               peakPositions: np.ndarray,
               peakProperties: dict,
               peaksCount: int,
               reverseStrand: bool,
               resolution: int = 1,
               blur: int = 0,
               correlationStart: int = 0,
               correlationEnd: int = None,
               peakHeightThreshold: float = None):
        noiseLevel = InitialAlignment.rootMeanSquare(correlation)
        return InitialAlignment(
            correlation,
            query,
            reference,
            InitialAlignment.createPeaks(peakPositions, peakProperties, resolution, correlationStart, noiseLevel,
                                         peaksCount),
            reverseStrand,
            noiseLevel,
            resolution,
            blur,
            correlationStart,
            correlationEnd or len(correlation) - 1)

    def refine(self, peakPosition: int, sequenceGenerator: SequenceGenerator, secondaryMargin: int = 8000,
               peakHeightThreshold: float = 15.):
        querySequence = self.query.getSequence(sequenceGenerator, self.reverseStrand)
        resolution = sequenceGenerator.resolution
        referenceStart = peakPosition - secondaryMargin
        referenceEnd = peakPosition + self.query.length + secondaryMargin
        referenceSequence = self.reference.getSequence(sequenceGenerator, False, referenceStart, referenceEnd)
        if len(referenceSequence) == 0:
            return CorrelationResult(np.array([]), self.query, self.reference, [], self.reverseStrand,
                                     peakHeightThreshold, resolution, sequenceGenerator.blurRadius, referenceStart,
                                     referenceEnd)
        correlation = self.__getCorrelation(referenceSequence, querySequence)
        with warnings.catch_warnings():
            warnings.simplefilter("ignore")
            peakPositions, peakProperties = find_peaks(
                correlation,
                height=peakHeightThreshold,
                width=(None, None),
                prominence=0.05 * correlation.max(initial=0))

        correlationLength = len(correlation) * resolution

        return CorrelationResult.create(correlation, self.query, self.reference, peakPositions, peakProperties,
                                        10, self.reverseStrand, resolution, sequenceGenerator.blurRadius,
                                        referenceStart, referenceStart + correlationLength, peakHeightThreshold)

    @staticmethod
    def __getCorrelation(reference: np.ndarray, query: np.ndarray) -> np.ndarray:
        return correlate(reference, query, mode='valid', method='fft')


class EmptyInitialAlignment(InitialAlignment):
    def __init__(self,
                 query: OpticalMap,
                 reference: OpticalMap,
                 resolution: int,
                 blur: int):
        super().__init__(np.array([]),
                         query,
                         reference,
                         [],
                         False,
                         0.)
        self.query = query
        self.reference = reference
        self.resolution = resolution
        self.blur = blur

    def getScore(self):
        return 0.
