from typing import List

from src.correlation.vectorise import vectorisePositions, blur


class SequenceGenerator:
    def __init__(self, resolution: int, blurRadius: int) -> None:
        self.resolution = resolution
        self.blurRadius = blurRadius

    def positionsToSequence(self, positions: List, start: int = 0, end: int = None):
        vector = list(vectorisePositions(positions, self.resolution, start, end))
        return blur(vector, self.blurRadius)
