from __future__ import annotations


class Peak:
    null: Peak

    def __init__(self, position: int, height: float, leftBase: int = 0, rightBase: int = 0, score: float = 0.) -> None:
        self.position = position
        self.height = height
        self.leftProminenceBasePosition = leftBase
        self.rightProminenceBasePosition = rightBase
        self.score = score

    @property
    def width(self):
        return self.rightProminenceBasePosition - self.leftProminenceBasePosition

    def __eq__(self, other):
        return isinstance(other, Peak) and self.position == other.position \
               and self.height == other.height \
               and self.leftProminenceBasePosition == other.leftProminenceBasePosition \
               and self.rightProminenceBasePosition == other.rightProminenceBasePosition


Peak.null = Peak(0, 0)
