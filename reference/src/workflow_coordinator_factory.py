from src.alignment.aligner import AlignerEngine, Aligner
from src.alignment.alignment_position_scorer import AlignmentPositionScorer
from src.alignment.segment_chainer import SegmentChainer, SequentialityScorer
from src.alignment.segment_with_resolved_conflicts import AlignmentSegmentConflictResolver
from src.alignment.segments_factory import AlignmentSegmentsFactory
from src.args import Args
from src.correlation.peaks_selector import PeaksSelector
from src.correlation.sequence_generator import SequenceGenerator
from src.extensions.dispatcher import Dispatcher
from src.multi_pass_workflow_coordinator import _MultiPassWorkflowCoordinator
from src.parsers.xmap_reader import XmapReader
from src.workflow_coordinator import _WorkflowCoordinator


class WorkflowCoordinatorFactory:
    def __init__(self, args: Args, dispatcher: Dispatcher, xmapReader: XmapReader):
        self.args = args
        self.dispatcher = dispatcher
        self.xmapReader = xmapReader

    def create(self):
        primaryGenerator = SequenceGenerator(self.args.primaryResolution, self.args.primaryBlur)
        secondaryGenerator = SequenceGenerator(self.args.secondaryResolution, self.args.secondaryBlur)
        scorer = AlignmentPositionScorer(
            self.args.perfectMatchScore,
            self.args.distancePenaltyMultiplier,
            self.args.unmatchedPenalty)
        segmentsFactory = AlignmentSegmentsFactory(self.args.minScore, self.args.breakSegmentThreshold)
        alignerEngine = AlignerEngine(self.args.maxPairDistance)
        alignmentSegmentConflictResolver = AlignmentSegmentConflictResolver(
            SegmentChainer(
                SequentialityScorer(self.args.segmentJoinMultiplier, self.args.sequentialityScore)))
        aligner = Aligner(scorer, segmentsFactory, alignerEngine, alignmentSegmentConflictResolver)
        if self.args.outputMode == "single":
            return _WorkflowCoordinator(
                self.args, primaryGenerator,
                secondaryGenerator,
                aligner,
                self.dispatcher,
                PeaksSelector(self.args.peaksCount))
        else:
            return _MultiPassWorkflowCoordinator(
                self.args,
                primaryGenerator,
                secondaryGenerator,
                aligner,
                self.dispatcher,
                PeaksSelector(self.args.peaksCount),
                self.xmapReader)
