from __future__ import annotations

import sys
from typing import List

from src.alignment.alignment_results import AlignmentResults
from src.args import Args
from src.diagnostic.diagnostics import DiagnosticsWriter, PrimaryCorrelationPlotter, \
    SecondaryCorrelationPlotter, AlignmentPlotter, MultipleAlignmentsPlotter
from src.extensions.dispatcher import Dispatcher
from src.extensions.extension import Extension
from src.parsers.alignment_benchmark_reader import AlignmentBenchmarkReader
from src.parsers.cmap_reader import CmapReader
from src.parsers.simulation_alignment_pair_parser import SimulationAlignmentPairWithDistanceParser
from src.parsers.simulation_data_as_xmap_reader import SimulationDataAsXmapReader
from src.parsers.xmap_alignment_pair_parser import XmapAlignmentPairWithDistanceParser
from src.parsers.xmap_reader import XmapReader
from src.workflow_coordinator_factory import WorkflowCoordinatorFactory


def main():
    args = Args.parse()
    Program(args).run()


class Program:
    def __init__(self, args: Args, extensions: List[Extension] = None):
        self.args = args
        self.__readMaps()
        self.xmapReader = XmapReader(XmapAlignmentPairWithDistanceParser(self.referenceMaps, self.queryMaps))
        self.dispatcher = Dispatcher(extensions)
        self.workflowCoordinator = WorkflowCoordinatorFactory(args, self.dispatcher, self.xmapReader).create()
        if args.diagnosticsEnabled:
            writer = DiagnosticsWriter(args.outputFile)
            simulationDataReader = SimulationDataAsXmapReader(
                SimulationAlignmentPairWithDistanceParser(self.referenceMaps, self.queryMaps))
            benchmarkReader = AlignmentBenchmarkReader(self.xmapReader, simulationDataReader)
            self.dispatcher.addExtension(PrimaryCorrelationPlotter(writer))
            self.dispatcher.addExtension(SecondaryCorrelationPlotter(writer))
            self.dispatcher.addExtension(AlignmentPlotter(writer, benchmarkReader, args.benchmarkAlignmentFile))
            self.dispatcher.addExtension(
                MultipleAlignmentsPlotter(writer, benchmarkReader, args.benchmarkAlignmentFile))

    def run(self):
        alignmentResultRows = self.workflowCoordinator.execute(self.referenceMaps, self.queryMaps)
        alignmentResult = AlignmentResults.create(self.args.referenceFile.name, self.args.queryFile.name,
                                                  alignmentResultRows)
        self.xmapReader.writeAlignments(self.args.outputFile, alignmentResult, self.args)
        if self.args.outputFile is not sys.stdout:
            self.args.outputFile.close()
        return alignmentResult

    def __readMaps(self):
        cmapReader = CmapReader()
        with self.args.referenceFile:
            self.referenceMaps = cmapReader.readReferences(self.args.referenceFile, self.args.referenceIds)
        with self.args.queryFile:
            self.queryMaps = list(
                map(lambda q: q.trim(), cmapReader.readQueries(self.args.queryFile, self.args.queryIds)))


if __name__ == '__main__':
    main()
