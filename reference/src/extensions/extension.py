from abc import abstractmethod
from typing import Type

from src.extensions.messages import Message


class Extension:
    @property
    @abstractmethod
    def messageType(self) -> Type[Message]:
        pass

    def canHandle(self, message: Message):
        return message.type() == self.messageType

    @abstractmethod
    def handle(self, message: Message):
        pass
