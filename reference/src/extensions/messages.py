from abc import ABC
from typing import List

from src.alignment.alignment_results import AlignmentResultRow
from src.correlation.optical_map import InitialAlignment, CorrelationResult, OpticalMap


class Message(ABC):
    def type(self):
        return type(self)


class InitialAlignmentMessage(Message):
    def __init__(self, data: InitialAlignment):
        self.data = data


class CorrelationResultMessage(Message):
    def __init__(self, initialAlignment: InitialAlignment, refinedAlignment: CorrelationResult, index: int = 0):
        self.initialAlignment = initialAlignment
        self.refinedAlignment = refinedAlignment
        self.index = index


class AlignmentResultRowMessage(Message):
    def __init__(self, reference: OpticalMap, query: OpticalMap, alignment: AlignmentResultRow,
                 correlation: InitialAlignment, index: int = 0):
        self.reference = reference
        self.query = query
        self.alignment = alignment
        self.correlation = correlation
        self.index = index


class MultipleAlignmentResultRowsMessage(Message):
    def __init__(self, messages: List[AlignmentResultRowMessage]):
        self.messages = messages
