from typing import List

from src.extensions.extension import Extension
from src.extensions.messages import Message


class Dispatcher:
    def __init__(self, extensions: List[Extension] = None):
        self.__extensions = extensions or []

    def addExtension(self, extension: Extension):
        self.__extensions.append(extension)

    def dispatch(self, message: Message):
        for extension in self.__extensions:
            if extension.canHandle(message):
                extension.handle(message)
