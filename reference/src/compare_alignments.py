from __future__ import annotations

import argparse
import sys
from typing import NamedTuple, TextIO, List

from src.diagnostic.alignment_comparer import AlignmentRowComparer, AlignmentComparer
from src.parsers.alignment_benchmark_reader import AlignmentBenchmarkReader
from src.parsers.cmap_reader import CmapReader
from src.parsers.simulation_alignment_pair_parser import SimulationAlignmentPairWithDistanceParser
from src.parsers.simulation_data_as_xmap_reader import SimulationDataAsXmapReader
from src.parsers.xmap_alignment_pair_parser import XmapAlignmentPairWithDistanceParser
from src.parsers.xmap_reader import XmapReader


def main():
    args = Args.parse()
    Program(args).run()


class Args(NamedTuple):
    alignmentFiles: List[TextIO]
    referenceFile: TextIO
    queryFile: TextIO
    outputFile: TextIO
    includePositions: bool
    combineMultipleQuerySources: bool

    @staticmethod
    def parse(args: List[str] = None) -> Args:
        parser = argparse.ArgumentParser(description="Compares optical map alignments.")
        parser.add_argument(dest="alignmentFiles", nargs=2, type=argparse.FileType("r"))
        parser.add_argument("-r", "--reference", dest="referenceFile", type=argparse.FileType("r"), required=True)
        parser.add_argument("-q", "--query", dest="queryFile", type=argparse.FileType("r"), required=True)
        parser.add_argument("-o", "--output", dest="outputFile", nargs="?", type=argparse.FileType("w"), default=sys.stdout)
        parser.add_argument("-d", "--includePositions", dest="includePositions", action="store_true",
                            help="Additionally writes genomic positions for each label in the output.")
        parser.add_argument("-c", "--combineMultipleQuerySources", dest="combineMultipleQuerySources", action="store_true", default=True,
                            help="Treats multiple pairs of a single query label as one. "
                                 "For instance, alignments (1, 1) and (1, 1)(2, 1) will be marked as matching")

        args = parser.parse_args(args)
        return args  # type: ignore


class Program:
    def __init__(self, args: Args):
        self.args = args
        self.sequenceReader = CmapReader()
        self.comparer = AlignmentComparer(AlignmentRowComparer(args.combineMultipleQuerySources))

    def run(self):
        benchmarkReader = self.__getBenchmarkReader()
        alignment1 = benchmarkReader.read(self.args.alignmentFiles[0])
        alignment2 = benchmarkReader.read(self.args.alignmentFiles[1])
        result = self.comparer.compare(alignment1, alignment2)
        result.write(self.args.outputFile, self.args.includePositions)

    def __getBenchmarkReader(self):
        references = self.sequenceReader.readReferences(self.args.referenceFile)
        queries = self.sequenceReader.readQueries(self.args.queryFile)
        pairParser = XmapAlignmentPairWithDistanceParser(references, queries)
        simulationPairParser = SimulationAlignmentPairWithDistanceParser(references, queries)
        benchmarkReader = AlignmentBenchmarkReader(XmapReader(pairParser), SimulationDataAsXmapReader(simulationPairParser))
        return benchmarkReader


if __name__ == '__main__':
    main()
