import os
from typing import List

from src.alignment.aligner import Aligner
from src.alignment.alignment_results import AlignmentResultRow, AlignmentResults
from src.args import Args
from src.correlation.optical_map import OpticalMap
from src.correlation.peaks_selector import PeaksSelector
from src.correlation.sequence_generator import SequenceGenerator
from src.extensions.dispatcher import Dispatcher
from src.parsers.xmap_reader import XmapReader
from src.workflow_coordinator import _WorkflowCoordinator


class _MultiPassWorkflowCoordinator(_WorkflowCoordinator):
    def __init__(self,
                 args: Args,
                 primaryGenerator: SequenceGenerator,
                 secondaryGenerator: SequenceGenerator,
                 aligner: Aligner,
                 dispatcher: Dispatcher,
                 peaksSelector: PeaksSelector,
                 xmapReader: XmapReader):
        super().__init__(args, primaryGenerator, secondaryGenerator, aligner, dispatcher, peaksSelector)
        self.xmapReader = xmapReader

    def execute(self, referenceMaps: List[OpticalMap], queryMaps: List[OpticalMap]) -> List[AlignmentResultRow]:
        alignmentResultRows = super().execute(referenceMaps, queryMaps)
        alignmentResultRowsSecondPass = self.getSecondPassAlignmentRows(alignmentResultRows, queryMaps, referenceMaps)

        if self.args.outputMode == "best":
            alignmentResultRows = alignmentResultRows + alignmentResultRowsSecondPass

        filteredFirstPassRows = AlignmentResults.filterOutSubsequentAlignmentsForSingleQuery(alignmentResultRows)
        filteredSecondPassRows = \
            AlignmentResults.filterOutSubsequentAlignmentsForSingleQuery(alignmentResultRowsSecondPass)

        if self.args.outputMode == 'separate':
            self.saveAdditionalOutput(filteredSecondPassRows, 1)
            return filteredFirstPassRows

        joinedRows, separateRows = AlignmentResults.resolve(
            filteredFirstPassRows + filteredSecondPassRows,
            self.args.maxDifference)

        if self.args.outputMode == 'best':
            joinedIds = [row.queryId for row in joinedRows]
            bestRows = [row for row in filteredFirstPassRows if row.queryId not in joinedIds]
            bestAndJoinedRows = sorted(joinedRows + bestRows, key=lambda r: r.queryId)
            return bestAndJoinedRows

        if self.args.outputMode == 'joined':
            self.saveAdditionalOutput(separateRows, 1)
            return joinedRows

        if self.args.outputMode == 'all':
            self.saveAdditionalOutput(filteredFirstPassRows, 1)
            self.saveAdditionalOutput(filteredSecondPassRows, 2)
            return joinedRows

    def getSecondPassAlignmentRows(self, alignmentResultRows, queryMaps, referenceMaps):
        unalignedFragmentsLists = \
            [alignmentResultRow.getUnalignedFragments(queryMaps) for alignmentResultRow in alignmentResultRows]
        unalignedFragments = [item for row in unalignedFragmentsLists for item in row]
        alignmentResultRowsSecondPass = super().execute(referenceMaps, unalignedFragments)
        alignmentResultRowsSecondPass = [alignmentResultRowRest.setAlignedRest(True) for alignmentResultRowRest in
                                         alignmentResultRowsSecondPass]
        return alignmentResultRowsSecondPass

    def saveAdditionalOutput(
            self,
            rowsWithoutSubsequentAlignmentsForSingleQueryRest: List[AlignmentResultRow],
            fileNumber: int):
        restResult = AlignmentResults(
            self.args.referenceFile.name,
            self.args.queryFile.name,
            rowsWithoutSubsequentAlignmentsForSingleQueryRest)

        self.xmapReader.writeAlignments(self.createAdditionalOutputFile(fileNumber), restResult, self.args)

    def createAdditionalOutputFile(self, number: int):
        return open("{0}_{2}{1}".format(*os.path.splitext(self.args.outputFile.name) + (number,)), mode='w',
                    encoding=self.args.outputFile.encoding)
