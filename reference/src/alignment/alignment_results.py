from __future__ import annotations

import itertools
from dataclasses import dataclass
from enum import Enum
from typing import List

from src.alignment.alignment_position import AlignedPair, NotAlignedPosition
from src.alignment.segment_with_resolved_conflicts import AlignmentSegmentsWithResolvedConflicts
from src.alignment.segments import AlignmentSegment
from src.correlation.optical_map import OpticalMap
from src.diagnostic.benchmark_alignment import BenchmarkAlignment


class HitEnum(Enum):
    MATCH = "M"
    DELETION = "D"
    INSERTION = "I"


@dataclass
class AlignmentResults:
    referenceFilePath: str
    queryFilePath: str
    rows: List[AlignmentResultRow]

    @staticmethod
    def create(referenceFilePath: str,
               queryFilePath: str,
               rows: List[AlignmentResultRow]):
        return AlignmentResults(
            referenceFilePath,
            queryFilePath,
            AlignmentResults.filterOutSubsequentAlignmentsForSingleQuery(rows))

    @staticmethod
    def filterOutSubsequentAlignmentsForSingleQuery(alignmentResultRows):
        rowsSortedByQueryIdThenByConfidence = \
            sorted(sorted(alignmentResultRows, key=lambda r: r.confidence, reverse=True), key=lambda r: r.queryId)
        rowsWithoutSubsequentAlignmentsForSingleQuery = \
            [next(group) for _, group in itertools.groupby(rowsSortedByQueryIdThenByConfidence, lambda r: r.queryId)]
        return rowsWithoutSubsequentAlignmentsForSingleQuery

    @staticmethod
    def resolve(rows: List[AlignmentResultRow],
                maxDifference: int):
        separate = []
        joined = []
        for _, queries in itertools.groupby(sorted(rows, key=lambda r: r.referenceId),
                                            lambda r: r.referenceId):
            for _, group in itertools.groupby(sorted(list(queries), key=lambda r: r.queryId), lambda r: r.queryId):
                group = list(group)
                if len(group) == 1:
                    separate.append(group[0])
                else:
                    if group[0].check_overlap(group[1], maxDifference):
                        resolved = group[0].resolve(group[1])
                        if resolved:
                            joined.append(resolved)
                        else:
                            separate.extend(group)
                    else:
                        separate.extend(group)
        return joined, separate


class AlignmentResultRow(BenchmarkAlignment):
    @staticmethod
    def create(segmentsWithoutConflicts: AlignmentSegmentsWithResolvedConflicts,
               queryId: int,
               referenceId: int,
               queryLength: int,
               referenceLength: int,
               reverseStrand: bool):
        segments = segmentsWithoutConflicts.segments
        alignedPairs = sorted(p for s in segments for p in s.positions if isinstance(p, AlignedPair))
        firstPair = alignedPairs[0] if alignedPairs else AlignedPair.null
        lastPair = alignedPairs[-1] if alignedPairs else AlignedPair.null
        queryStartPosition = (firstPair if not reverseStrand else lastPair).query.position
        queryEndPosition = (lastPair if not reverseStrand else firstPair).query.position
        referenceStartPosition = firstPair.reference.position
        referenceEndPosition = lastPair.reference.position
        confidence = sum(s.segmentScore for s in segments)
        return AlignmentResultRow(segments, queryId, referenceId, queryLength, referenceLength, queryStartPosition,
                                  queryEndPosition, referenceStartPosition, referenceEndPosition, reverseStrand,
                                  confidence)

    def __init__(self,
                 segments: List[AlignmentSegment],
                 queryId: int = 1,
                 referenceId: int = 1,
                 queryLength: int = 1,
                 referenceLength: int = 1,
                 queryStartPosition: int = 0,
                 queryEndPosition: int = 0,
                 referenceStartPosition: int = 0,
                 referenceEndPosition: int = 0,
                 reverseStrand: bool = False,
                 confidence: float = 0.,
                 alignedRest: bool = False):

        self.queryId = queryId
        self.referenceId = referenceId
        self.queryStartPosition = queryStartPosition
        self.queryEndPosition = queryEndPosition
        self.referenceStartPosition = referenceStartPosition
        self.referenceEndPosition = referenceEndPosition
        self.reverseStrand = reverseStrand
        self.confidence = confidence
        self.queryLength = queryLength
        self.referenceLength = referenceLength
        self.segments = segments
        self.alignedRest = alignedRest

    @property
    def positions(self):
        return [position for segment in self.segments for position in segment.positions]

    @property
    def alignedPairs(self) -> List[AlignedPair]:
        return [p for p in self.positions if isinstance(p, AlignedPair)]

    @property
    def notAlignedPositions(self) -> List[NotAlignedPosition]:
        return [p for p in self.positions if isinstance(p, NotAlignedPosition)]

    @property
    def cigarString(self):
        if not self.alignedPairs:
            return ""
        hitEnums = list(self.__getHitEnums())
        return "".join(self.__aggregateHitEnums(hitEnums))

    def __getHitEnums(self):
        pairs = list(self.__removeDuplicateQueryPositionsPreservingLastOne(self.alignedPairs))
        pairsIterator = iter(pairs)
        currentPair: AlignedPair = next(pairsIterator)
        previousQuery = currentPair.query.siteId
        for referenceIndex in range(pairs[0].reference.siteId,
                                    pairs[-1].reference.siteId + 1):
            queryIncrement = abs(currentPair.query.siteId - previousQuery)
            if queryIncrement > 1:
                for _ in range(1, queryIncrement):
                    yield HitEnum.INSERTION
                previousQuery = currentPair.query.siteId
            if currentPair.reference.siteId == referenceIndex:
                previousQuery = currentPair.query.siteId
                currentPair = next(pairsIterator, None)
                yield HitEnum.MATCH
            elif currentPair.reference.siteId > referenceIndex:
                yield HitEnum.DELETION

    @staticmethod
    def __removeDuplicateQueryPositionsPreservingLastOne(pairs: List[AlignedPair]):
        for _, ambiguousPairs in itertools.groupby(pairs, lambda pair: pair.query.siteId):
            *_, lastPair = ambiguousPairs
            yield lastPair

    @staticmethod
    def __aggregateHitEnums(hits: List[HitEnum]):
        count = 1
        previousHit: HitEnum = hits[0]
        for hit in hits[1:]:
            if hit == previousHit:
                count += 1
            else:
                yield AlignmentResultRow.__hitToString(count, previousHit)
                previousHit = hit
                count = 1
        yield AlignmentResultRow.__hitToString(count, previousHit)

    @staticmethod
    def __hitToString(count, hit):
        x = f"{count}{hit.value}"
        return x

    def getUnalignedFragments(self, queries: List[OpticalMap]) -> List[OpticalMap]:
        """Function used to return unaligned fragments of the query
        if those parts constitute more than 0.2 of the whole query

        :param queries: whole query which is being currently aligned
        :type queries: List[OpticalMap]
        :return: Unaligned parts of query in question
        :rtype: List[OpticalMap]
        """
        if abs(self.queryStartPosition - self.queryEndPosition) > 0.8 * self.queryLength:
            return []
        else:
            query = next((opticMap for opticMap in queries if opticMap.moleculeId == self.queryId), None)
            if self.queryStartPosition == 0.0 or self.queryEndPosition == 0.0:
                # Aligned positions are at the end/start
                if self.orientation == '+':
                    positions = query.positions[query.positions.index(self.queryEndPosition) - 2:]
                    shift = len(query.positions) - len(positions)
                    if self.queryEndPosition == 0.0:
                        return []
                else:
                    alignedPairs = sorted(p for s in self.segments for p in s.positions if isinstance(p, AlignedPair))
                    lastPair = alignedPairs[-1] if alignedPairs else AlignedPair.null
                    positions = query.positions[: lastPair.query.siteId + 3]
                    shift = 0
                return [OpticalMap(self.queryId, self.queryLength, positions, shift=shift)]
            else:
                # Case where aligned fragment is in the middle
                if self.orientation == '+':
                    positions1 = query.positions[: query.positions.index(self.queryStartPosition) + 3]
                    positions2 = query.positions[query.positions.index(self.queryEndPosition) - 2:]

                else:
                    alignedPairs = sorted(p for s in self.segments for p in s.positions if isinstance(p, AlignedPair))
                    firstPair = alignedPairs[0] if alignedPairs else AlignedPair.null
                    lastPair = alignedPairs[-1] if alignedPairs else AlignedPair.null
                    positions1 = query.positions[: lastPair.query.siteId + 3]
                    positions2 = query.positions[firstPair.query.siteId - 2:]

                if len(positions1) >= 7 and len(positions2) >= 7:
                    return [OpticalMap(self.queryId, self.queryLength, positions1, shift=0),
                            OpticalMap(self.queryId, self.queryLength, positions2,
                                       shift=len(query.positions) - len(positions2))]
                elif len(positions1) >= 7:
                    return [OpticalMap(self.queryId, self.queryLength, positions1, shift=0)]
                elif len(positions2) >= 7:
                    return [OpticalMap(self.queryId, self.queryLength, positions2,
                                       shift=len(query.positions) - len(positions2))]
                else:
                    return []

    def setAlignedRest(self, alignedRest: bool):
        self.alignedRest = alignedRest
        return self

    def check_overlap(self, alignedRest: AlignmentResultRow, maxDifference: int) -> bool:
        """Function used to identify overlapping alignments of the same query

        :param alignedRest: Other alignment of the same query
        :type alignedRest: AlignmentResultRow
        :param maxDifference: Maximum difference between reference positions of the
        alignments if they are to be joint
        :type maxDifference: int
        :return: Whether those two alignments should be joined
        :rtype: bool
        """
        if self.orientation == alignedRest.orientation and self.referenceId == alignedRest.referenceId:
            diff = abs(max(self.referenceStartPosition, alignedRest.referenceStartPosition) - \
                       min(self.referenceEndPosition, alignedRest.referenceEndPosition))
            if diff <= maxDifference:
                return True
        return False

    def resolve(self, alignedRest: AlignmentResultRow) -> AlignmentResultRow | None:
        """Function used to resolve conflicts between two overlapping alignments of the same query

        :param alignedRest: Other alignment of the same query
        :type alignedRest: AlignmentResultRow
        :return: Joint alignment with resolved conflicts
        :rtype: AlignmentResultRow
        """
        if self.alignedPairs[0].reference.position < alignedRest.alignedPairs[0].reference.position:
            pair = self.segments[0].checkForConflicts(alignedRest.segments[0])
        else:
            pair = alignedRest.segments[0].checkForConflicts(self.segments[0])

        if resolution := pair.resolveConflict():
            seg1, seg2 = resolution
            otherSegments = self.segments[1:] + alignedRest.segments[1:]
            notEmptySegments = sorted([s for s in [seg1, seg2] + otherSegments if not s.empty],
                                      key=lambda s: s.startPosition.reference.position)
            joined = AlignmentResultRow.create(AlignmentSegmentsWithResolvedConflicts(notEmptySegments),
                                               self.queryId, self.referenceId, self.queryLength, self.referenceLength,
                                               self.reverseStrand)
            return joined if joined.__isCollinearMatching() else None
        return

    def __isCollinearMatching(self) -> bool:
        """Trimming two records that cross each other can leave a label paired twice or the pairs out of order;
        such a pair of records is not joined."""
        pairs = self.alignedPairs
        for previous, current in zip(pairs, pairs[1:]):
            if previous.reference.siteId >= current.reference.siteId:
                return False
            if previous.query.siteId == current.query.siteId \
                    or (previous.query.siteId < current.query.siteId) == self.reverseStrand:
                return False
        return len(pairs) > 0
