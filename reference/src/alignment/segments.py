from __future__ import annotations

import itertools
from abc import ABC, abstractmethod
from typing import List, Tuple

import numpy as np

from src.alignment.alignment_position import ScoredAlignmentPosition, ScoredAlignedPair, AlignedPair, \
    NotAlignedQueryPosition, ScoredNotAlignedPosition, NotAlignedReferencePosition
from src.correlation.peak import Peak


class AlignmentSegment:
    @staticmethod
    def create(positions: List[ScoredAlignmentPosition],
               peak: Peak,
               allPeakPositions: List[ScoredAlignmentPosition]):
        return AlignmentSegment(positions, sum(p.score for p in positions), peak, allPeakPositions) \
            if any(isinstance(p, ScoredAlignedPair) for p in positions) \
            else EmptyAlignmentSegment(peak, allPeakPositions)

    def __init__(
            self,
            positions: List[ScoredAlignmentPosition],
            segmentScore: float,
            peak: Peak,
            allPeakPositions: List[ScoredAlignmentPosition]):
        self.positions = positions
        self.segmentScore = segmentScore
        self.alignedPositions = [p for p in positions if isinstance(p, ScoredAlignedPair)]
        self.peak = peak
        self.allPeakPositions = allPeakPositions or []

    @property
    def empty(self):
        return len(self.positions) == 0

    @property
    def startPosition(self):
        return self.alignedPositions[0]

    @property
    def endPosition(self):
        return self.alignedPositions[-1]

    @property
    def reverse(self):
        return self.startPosition.query.siteId > self.endPosition.query.siteId

    def checkForConflicts(self, other: AlignmentSegment):
        if self.endOverlapsWithStartOf(other):
            return _SegmentPairWithConflict.create(self, other)
        return _SegmentPairWithNoConflict(self, other)

    def endOverlapsWithStartOf(self, other: AlignmentSegment):
        return other.startPosition.lessOrEqualOnAnySequence(self.startPosition) or \
               other.startPosition.lessOrEqualOnAnySequence(self.endPosition) or \
               self.endPosition.lessOrEqualOnAnySequence(other.endPosition)

    def slice(self, start: AlignedPair, end: AlignedPair) -> AlignmentSegment:
        slicedAtStart = itertools.dropwhile(
            lambda p: p.lessOnBothSequences(start), self.positions)
        positions = list(
            itertools.takewhile(
                lambda p: not isinstance(p, AlignedPair) or p.lessOrEqualOnAnySequence(end),
                slicedAtStart))
        self.__trimNotAlignedPositionsFromEnd(positions, end)
        return AlignmentSegment.create(positions, self.peak, self.allPeakPositions)

    def getReferenceLabels(self) -> _ConflictingSegmentCharacteristics:
        """Function used to get all of the reference labels,
        scores and their indexes present in a segment

        :return: Characteristics of Reference in a segment of alignment
        :rtype: _ConflictingSegmentCharacteristics
        """

        referencePositions, referenceScores, referenceIndexes = [], [], []
        sumScore = 0
        for index, position in enumerate(self.positions):
            if isinstance(position, ScoredAlignedPair):
                referenceIndexes.append(index)
                referencePositions.append(position.reference)
                referenceScores.append(position.score + sumScore)
                sumScore = 0
            elif isinstance(position, ScoredNotAlignedPosition) \
                    and isinstance(position.position, NotAlignedReferencePosition):
                referenceIndexes.append(index)
                referencePositions.append(position.position.reference)
                referenceScores.append(position.score + sumScore)
                sumScore = 0
            else:
                sumScore += position.score
        return _ConflictingSegmentCharacteristics(referencePositions, referenceScores, referenceIndexes)

    def getQueryLabels(self) -> _ConflictingSegmentCharacteristics:
        """Function used to get all of the query labels,
        scores and their indexes present in a segment

        :return: Characteristics of Query in a segment of alignment
        :rtype: _ConflictingSegmentCharacteristics
        """
        queryPositions, queryScores, queryIndexes = [], [], []
        sumScore = 0
        for index, position in enumerate(self.positions):
            if isinstance(position, ScoredAlignedPair):
                queryPositions.append(position.query)
                queryScores.append(position.score + sumScore)
                queryIndexes.append(index)
                sumScore = 0
            elif isinstance(position, ScoredNotAlignedPosition) \
                    and isinstance(position.position, NotAlignedQueryPosition):
                queryPositions.append(position.position.query)
                queryScores.append(position.score + sumScore)
                queryIndexes.append(index)
                sumScore = 0
            else:
                sumScore += position.score
        return _ConflictingSegmentCharacteristics(queryPositions, queryScores, queryIndexes)

    @staticmethod
    def __trimNotAlignedPositionsFromEnd(positions, end=None):
        if positions:
            while not isinstance(positions[-1], AlignedPair) and (
                    not end or not positions[-1].lessOrEqualOnAnySequence(end)):
                positions.pop()

    def __eq__(self, other):
        return isinstance(other, AlignmentSegment) \
               and other.segmentScore == self.segmentScore \
               and other.positions == self.positions \
               and other.peak == self.peak

    def __sub__(self, other: AlignmentSegment | List[ScoredAlignmentPosition]):
        if isinstance(other, AlignmentSegment):
            otherPositions = other.positions
        else:
            otherPositions = other
        positions = [p for p in self.positions if p not in otherPositions]
        return AlignmentSegment.create(positions, self.peak, self.allPeakPositions)

    def __repr__(self):
        return f"score: {self.segmentScore}, positions: {self.positions}"


class EmptyAlignmentSegment(AlignmentSegment):
    def __init__(self,
                 peak: Peak = None,
                 allPeakPositions: List[ScoredAlignmentPosition] = None):
        super().__init__([], 0., peak or Peak.null, allPeakPositions or [])

    @property
    def startPosition(self):
        return AlignedPair.null

    @property
    def endPosition(self):
        return AlignedPair.null

    def checkForConflicts(self, other: AlignmentSegment):
        return _SegmentPairWithNoConflict(self, other)

    def endOverlapsWithStartOf(self, other: AlignmentSegment):
        return False


class _SegmentPair(ABC):
    def __init__(self, leftSegment: AlignmentSegment, rightSegment: AlignmentSegment):
        self.leftSegment = leftSegment
        self.rightSegment = rightSegment

    @abstractmethod
    def resolveConflict(self) -> Tuple[AlignmentSegment, AlignmentSegment]:
        pass


class _SegmentPairWithNoConflict(_SegmentPair):
    def __init__(self, leftSegment: AlignmentSegment, rightSegment: AlignmentSegment):
        super().__init__(leftSegment, rightSegment)

    def resolveConflict(self) -> Tuple[AlignmentSegment, AlignmentSegment]:
        return self.leftSegment, self.rightSegment


class _SegmentPairWithConflict(_SegmentPair):
    def __init__(self, leftSegment: AlignmentSegment, leftConflictingSubsegment: AlignmentSegment,
                 rightSegment: AlignmentSegment, rightConflictingSubsegment: AlignmentSegment):
        super().__init__(leftSegment, rightSegment)
        self.leftConflictingSubsegment = leftConflictingSubsegment
        self.rightConflictingSubsegment = rightConflictingSubsegment

    @staticmethod
    def create(segment1: AlignmentSegment, segment2: AlignmentSegment):
        conflictStart = segment2.startPosition
        conflictEnd = segment1.endPosition
        leftConflictingSubsegment = segment1.slice(conflictStart, conflictEnd)
        rightConflictingSubsegment = segment2.slice(conflictStart, conflictEnd)
        return _SegmentPairWithConflict(segment1, leftConflictingSubsegment, segment2, rightConflictingSubsegment)

    def resolveConflict(self) -> Tuple[AlignmentSegment, AlignmentSegment]:
        if self.leftConflictingSubsegment.peak.position > self.rightConflictingSubsegment.peak.position:
            return self.__trimSegmentsAtOptimalPosition(
                self.leftConflictingSubsegment.getReferenceLabels(),
                self.rightConflictingSubsegment.getReferenceLabels())
        else:
            return self.__trimSegmentsAtOptimalPosition(
                self.leftConflictingSubsegment.getQueryLabels(),
                self.rightConflictingSubsegment.getQueryLabels())

    def __trimSegmentsAtOptimalPosition(
            self,
            leftSubsegmentCharacteristics: _ConflictingSegmentCharacteristics,
            rightSubsegmentCharacteristics: _ConflictingSegmentCharacteristics):
        if len(leftSubsegmentCharacteristics.positions) == len(rightSubsegmentCharacteristics.positions):
            optimalMergeIndex = self.__getOptimalMergeIndex(leftSubsegmentCharacteristics,
                                                            rightSubsegmentCharacteristics)
            if optimalMergeIndex == 0:
                return self.leftSegment - self.leftConflictingSubsegment, self.rightSegment
            elif optimalMergeIndex == len(leftSubsegmentCharacteristics.positions):
                return self.leftSegment, self.rightSegment - self.rightConflictingSubsegment
            else:
                leftTrimIndex = leftSubsegmentCharacteristics.indexes[optimalMergeIndex]
                leftSegmentPositionsToRemove = self.leftConflictingSubsegment.positions[leftTrimIndex:]
                newLeftSegment = self.leftSegment - leftSegmentPositionsToRemove

                rightTrimIndex = rightSubsegmentCharacteristics.indexes[optimalMergeIndex]
                rightSegmentPositionsToRemove = self.rightConflictingSubsegment.positions[:rightTrimIndex]
                newRightSegment = self.rightSegment - rightSegmentPositionsToRemove
            return newLeftSegment, newRightSegment
        else:
            return self.__removeWholeConflictingSubsegmentWithWorseScore()

    @staticmethod
    def __getOptimalMergeIndex(leftSubsegmentCharacteristics, rightSubsegmentCharacteristics):
        leftSubsegmentCumulatedScores = np.cumsum([0] + leftSubsegmentCharacteristics.scores)
        rightSubsegmentCumulatedScores = np.cumsum([0] + rightSubsegmentCharacteristics.scores[::-1])[::-1]
        totalCumulatedScores = np.add(leftSubsegmentCumulatedScores, rightSubsegmentCumulatedScores)
        optimalMergeIndex = np.argmax(totalCumulatedScores)
        return optimalMergeIndex

    def __removeWholeConflictingSubsegmentWithWorseScore(self) -> Tuple[AlignmentSegment, AlignmentSegment]:
        if self.leftConflictingSubsegment.segmentScore > self.rightConflictingSubsegment.segmentScore:
            return self.leftSegment, self.rightSegment - self.rightConflictingSubsegment
        else:
            return self.leftSegment - self.leftConflictingSubsegment, self.rightSegment


class _ConflictingSegmentCharacteristics:
    def __init__(self, positions: List, scores: List, indexes: List):
        self.positions = positions
        self.scores = scores
        self.indexes = indexes
