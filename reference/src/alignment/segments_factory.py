from typing import List

from src.alignment.alignment_position import ScoredAlignmentPosition
from src.alignment.segments import AlignmentSegment, EmptyAlignmentSegment
from src.correlation.peak import Peak


class AlignmentSegmentsFactory:
    def __init__(self,
                 minScore: float,
                 breakSegmentThreshold: float):
        if minScore <= 0:
            raise ValueError("minScore has to be bigger than 0")
        self.minScore = minScore
        self.breakSegmentThreshold = breakSegmentThreshold

    def getSegments(self, positions: List[ScoredAlignmentPosition], peak: Peak) -> List[AlignmentSegment]:
        return _AlignmentSegmentBuilder(
            self.minScore,
            self.breakSegmentThreshold,
            positions,
            peak).getSegments()


class _AlignmentSegmentBuilder:
    def __init__(self,
                 minScore: float,
                 breakSegmentThreshold: float,
                 positions: List[ScoredAlignmentPosition],
                 peak: Peak):
        self.minScore = minScore
        self.breakSegmentThreshold = breakSegmentThreshold
        self.positions = positions
        self.peak = peak
        self.currentSegmentStart = 0
        self.extendedSegmentEndPosition = 0
        self.extendedSegmentScore = 0
        self.currentSegment = EmptyAlignmentSegment(peak, positions)
        self.resultSegments = []

    def getSegments(self) -> List[AlignmentSegment]:
        alignmentEnd = len(self.positions) - 1
        while self.extendedSegmentEndPosition <= alignmentEnd:
            self.extendedSegmentScore += self.positions[self.extendedSegmentEndPosition].score
            if self.__extendedSegmentScoreFellBelowBreakSegmentThreshold():
                self.__breakSegment()
            else:
                self.extendedSegmentEndPosition += 1
                self.__acceptExtendedSegmentIfScoreIsImproved()

        self.__addCurrentSegmentToResultIfScoreIsEnough()

        return self.resultSegments or [EmptyAlignmentSegment(self.peak, self.positions)]

    def __extendedSegmentScoreFellBelowBreakSegmentThreshold(self):
        return self.extendedSegmentScore <= max(0., self.currentSegment.segmentScore - self.breakSegmentThreshold)

    def __breakSegment(self):
        self.__addCurrentSegmentToResultIfScoreIsEnough()
        self.currentSegment = EmptyAlignmentSegment(self.peak, self.positions)
        self.currentSegmentStart = self.extendedSegmentEndPosition = self.extendedSegmentEndPosition + 1
        self.extendedSegmentScore = 0

    def __addCurrentSegmentToResultIfScoreIsEnough(self):
        if self.currentSegment.segmentScore >= self.minScore:
            self.resultSegments.append(self.currentSegment)
            self.currentSegment = EmptyAlignmentSegment(self.peak, self.positions)

    def __acceptExtendedSegmentIfScoreIsImproved(self):
        if self.extendedSegmentScore > self.currentSegment.segmentScore:
            self.currentSegment = AlignmentSegment.create(
                self.positions[self.currentSegmentStart:self.extendedSegmentEndPosition],
                self.peak,
                self.positions)
