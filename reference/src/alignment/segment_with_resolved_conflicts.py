import itertools
from typing import List, Iterable

from src.alignment.segment_chainer import SegmentChainer
from src.alignment.segments import AlignmentSegment


class AlignmentSegmentConflictResolver:
    def __init__(self, segmentChainer: SegmentChainer):
        self.segmentChainer = segmentChainer

    def resolveConflicts(self, segments: List[AlignmentSegment]):
        if len(segments) < 2:
            return AlignmentSegmentsWithResolvedConflicts(segments)

        resolvedSegments = self.__pairAndResolveConflicts(segments)
        return AlignmentSegmentsWithResolvedConflicts(resolvedSegments)

    def __pairAndResolveConflicts(self, segments: Iterable[AlignmentSegment]):
        chainedSegments = self.segmentChainer.chain(segments)
        for (i0, i1) in self.__pairIndexes(len(chainedSegments)):
            pair = chainedSegments[i0].checkForConflicts(chainedSegments[i1])
            chainedSegments[i0], chainedSegments[i1] = pair.resolveConflict()
        return chainedSegments

    @staticmethod
    def __pairIndexes(length: int):
        return itertools.combinations(range(length), 2)


class AlignmentSegmentsWithResolvedConflicts:
    def __init__(self, segments: List[AlignmentSegment]):
        self.segments = segments
