from __future__ import annotations

import math
from typing import Iterable, List

from src.alignment.segments import AlignmentSegment


class SegmentChainer:
    def __init__(self, sequentialityScorer: SequentialityScorer):
        self.sequentialityScorer = sequentialityScorer

    def chain(self, segments: Iterable[AlignmentSegment]):
        def initialOrderingKey(segment: AlignmentSegment):
            return segment.startPosition.reference.position + segment.endPosition.reference.position \
                   + segment.startPosition.query.position + segment.endPosition.query.position

        emptySegments = [s for s in segments if s.empty]
        preOrderedNonEmptySegments = sorted((s for s in segments if not s.empty), key=initialOrderingKey)
        if not preOrderedNonEmptySegments:
            return emptySegments

        cumulatedScore = [-math.inf] * len(preOrderedNonEmptySegments)
        previousSegmentIndexes: List[int | None] = [None] * len(preOrderedNonEmptySegments)
        bestPreviousSegmentIndex = 0
        for i, currentSegment in enumerate(preOrderedNonEmptySegments):
            cumulatedScore[i] = 0
            for j, previousSegment in enumerate(preOrderedNonEmptySegments[:i]):
                currentScore = cumulatedScore[j] + self.sequentialityScorer.getScore(
                    previousSegment, currentSegment)
                if currentScore > cumulatedScore[i]:
                    cumulatedScore[i] = currentScore
                    previousSegmentIndexes[i] = j
            cumulatedScore[i] += currentSegment.segmentScore
            if cumulatedScore[i] > cumulatedScore[bestPreviousSegmentIndex]:
                bestPreviousSegmentIndex = i
        result = [preOrderedNonEmptySegments[bestPreviousSegmentIndex]]
        while (bestPreviousSegmentIndex := previousSegmentIndexes[bestPreviousSegmentIndex]) is not None:
            result.insert(0, preOrderedNonEmptySegments[bestPreviousSegmentIndex])
        return result + emptySegments


class SequentialityScorer:
    def __init__(self, segmentJoinMultiplier: float, sequentialityScore: int):
        self.segmentJoinMultiplier = segmentJoinMultiplier
        self.sequentialityScore = sequentialityScore

    def getScore(self, previousSegment: AlignmentSegment, currentSegment: AlignmentSegment):
        queryLength = min(abs(currentSegment.endPosition.query.position - currentSegment.startPosition.query.position),
                          abs(previousSegment.endPosition.query.position - previousSegment.startPosition.query.position))
        referenceDistance = currentSegment.startPosition.reference.position - previousSegment.endPosition.reference.position
        referenceLength = min(
            currentSegment.endPosition.reference.position - currentSegment.startPosition.reference.position,
            previousSegment.endPosition.reference.position - previousSegment.startPosition.reference.position)

        queryDistance = currentSegment.startPosition.query.position - previousSegment.endPosition.query.position

        if min(referenceLength + 2 * referenceDistance, queryLength + 2 * queryDistance) < 0:
            return -math.inf

        def calcScore(referDist, queryDist, seqScore):
            distSum = referDist + queryDist
            absDistSum = abs(referDist) + abs(queryDist)
            distDiff = referDist - queryDist
            if seqScore == 0:
                return (distSum ** 2 + distDiff ** 2) / max(abs(distSum), abs(distDiff), 1)
            else:
                return (absDistSum ** 2 + distDiff ** 2) / max(absDistSum + abs(distDiff), 1)

        return - self.segmentJoinMultiplier * calcScore(referenceDistance, queryDistance, self.sequentialityScore)
