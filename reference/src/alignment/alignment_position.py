from __future__ import annotations

import itertools
from abc import ABC, abstractmethod
from typing import Tuple, Iterable, Callable, Sized

from src.correlation.optical_map import PositionWithSiteId


class AlignmentPosition(ABC):
    @abstractmethod
    def getScoredPosition(self, perfectMatchScore: int, distancePenaltyMultiplier: float,
                          unmatchedPenalty: int) -> ScoredAlignmentPosition:
        pass

    @property
    @abstractmethod
    def absolutePosition(self) -> int:
        pass

    def __lt__(self, other: AlignmentPosition):
        return self.absolutePosition < other.absolutePosition


class NotAlignedPosition(AlignmentPosition, ABC):
    def getScoredPosition(self, perfectMatchScore: int, distancePenaltyMultiplier: float,
                          unmatchedPenalty: int) -> ScoredAlignmentPosition:
        if unmatchedPenalty > 0:
            raise ValueError("penalty should be negative")
        return ScoredNotAlignedPosition(self, unmatchedPenalty)

    @abstractmethod
    def lessOnBothSequences(self, other: AlignedPair) -> bool:
        pass

    @abstractmethod
    def lessOrEqualOnAnySequence(self, other: AlignedPair) -> bool:
        pass


class NotAlignedQueryPosition(NotAlignedPosition):
    def __init__(self, query: PositionWithSiteId, referenceStart: int):
        self.query = query
        self.referenceStart = referenceStart

    @property
    def absolutePosition(self) -> int:
        return self.query.position + self.referenceStart

    def __repr__(self) -> str:
        return f"(-, {self.query.siteId})"

    def __eq__(self, other: NotAlignedQueryPosition | Tuple[None, int]) -> bool:
        return other[0] is None and self.query.siteId == other[1] if isinstance(other, Sized) and len(other) == 2 \
            else isinstance(other, NotAlignedQueryPosition) \
                 and self.query.siteId == other.query.siteId

    def lessOnBothSequences(self, other: AlignedPair) -> bool:
        return self.query.position < other.query.position

    def lessOrEqualOnAnySequence(self, other: AlignedPair) -> bool:
        return self.query.position <= other.query.position


class NotAlignedReferencePosition(NotAlignedPosition):
    def __init__(self, reference: PositionWithSiteId):
        self.reference = reference

    @property
    def absolutePosition(self) -> int:
        return self.reference.position

    def __repr__(self) -> str:
        return f"({self.reference.siteId}, -)"

    def __eq__(self, other: NotAlignedReferencePosition | Tuple[int, None]) -> bool:
        return self.reference.siteId == other[0] and other[1] is None if isinstance(other, Sized) and len(other) == 2 \
            else isinstance(other, NotAlignedReferencePosition) \
                 and self.reference.siteId == other.reference.siteId

    def lessOnBothSequences(self, other: AlignedPair) -> bool:
        return self.reference.position < other.reference.position

    def lessOrEqualOnAnySequence(self, other: AlignedPair) -> bool:
        return self.reference.position <= other.reference.position


class AlignedPair(AlignmentPosition):
    null: AlignedPair

    def __init__(self, reference: PositionWithSiteId, query: PositionWithSiteId, queryShift: int = 0, source: int = 0):
        self.reference = reference
        self.query = query
        self.queryShift = queryShift
        self.source = source

    @staticmethod
    def distanceSelector(pair: AlignedPair):
        return pair.distance

    @staticmethod
    def queryShiftSelector(pair: AlignedPair):
        return pair.queryShift

    @staticmethod
    def referenceSiteIdSelector(pair: AlignedPair):
        return pair.reference.siteId

    @staticmethod
    def querySiteIdSelector(pair: AlignedPair):
        return pair.query.siteId

    @staticmethod
    def deduplicate(pairs: Iterable[AlignedPair]):
        return AlignedPair.__deduplicateByKey(
            AlignedPair.__deduplicateByKey(pairs, AlignedPair.querySiteIdSelector),
            AlignedPair.referenceSiteIdSelector)

    @staticmethod
    def __deduplicateByKey(pairs: Iterable[AlignedPair], key: Callable[[AlignedPair], int]):
        sortedPairs = sorted(pairs, key=key)
        for _, ambiguousPairs in itertools.groupby(sortedPairs, key):
            yield min(ambiguousPairs, key=AlignedPair.distanceSelector)

    @property
    def distance(self):
        return abs(self.queryShift)

    @property
    def absolutePosition(self) -> int:
        return self.reference.position

    def getScoredPosition(self, perfectMatchScore: int, distancePenaltyMultiplier: float,
                          unmatchedPenalty: int) -> ScoredAlignmentPosition:
        score = perfectMatchScore - distancePenaltyMultiplier * self.distance
        return ScoredAlignedPair(self, score)

    def lessOnBothSequences(self, other: AlignedPair):
        return self.query < other.query and self.reference < other.reference

    def lessOrEqualOnAnySequence(self, other: AlignedPair):
        return self.query < other.query or self.reference < other.reference \
               or self.query == other.query or self.reference == other.reference

    def __repr__(self) -> str:
        return f"({self.reference.siteId}, {self.query.siteId}), distance:{self.queryShift:.2f}, source:{self.source}"

    def __eq__(self, other: AlignedPair | Tuple[int, int] | Tuple[int, int, int]) -> bool:
        if isinstance(other, AlignedPair):
            return self.query == other.query and self.reference == other.reference
        if not isinstance(other, tuple):
            return False
        return self.reference.siteId == other[0] and self.query.siteId == other[1] and (
                len(other) == 2 or self.queryShift == other[2])

    def __hash__(self):
        return hash((self.reference, self.query, self.source))


class _NullAlignedPair(AlignedPair):
    def __init__(self):
        super().__init__(PositionWithSiteId(0, 0), PositionWithSiteId(0, 0))

    def lessOnBothSequences(self, other: AlignedPair):
        return False

    def lessOrEqualOnAnySequence(self, other: AlignedPair):
        return False


AlignedPair.null = _NullAlignedPair()


class ScoredAlignmentPosition(AlignmentPosition, ABC):
    score: float


class ScoredAlignedPair(AlignedPair, ScoredAlignmentPosition):
    def __init__(self, pair: AlignedPair, score: float):
        super().__init__(pair.reference, pair.query, pair.queryShift, pair.source)
        self.score = score

    def __repr__(self) -> str:
        return f"{AlignedPair.__repr__(self)}, score:{self.score:.2f}"


class ScoredNotAlignedPosition(NotAlignedPosition, ScoredAlignmentPosition):
    @property
    def absolutePosition(self) -> int:
        return self.position.absolutePosition

    def __init__(self, position: NotAlignedPosition, score: float):
        self.score = score
        self.position = position

    def __repr__(self) -> str:
        return f"{self.position}, score:{self.score:.2f}"

    def __eq__(self, other: NotAlignedPosition):
        return self.position == other

    def lessOnBothSequences(self, other: AlignedPair) -> bool:
        return self.position.lessOnBothSequences(other)

    def lessOrEqualOnAnySequence(self, other: AlignedPair) -> bool:
        return self.position.lessOrEqualOnAnySequence(other)
