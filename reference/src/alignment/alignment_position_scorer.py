from typing import List

from src.alignment.alignment_position import AlignmentPosition


class AlignmentPositionScorer:
    def __init__(self, perfectMatchScore: int,
                 distancePenaltyMultiplier: float,
                 unmatchedPenalty: int):
        self.perfectMatchScore = perfectMatchScore
        self.distancePenaltyMultiplier = distancePenaltyMultiplier
        self.unmatchedPenalty = unmatchedPenalty

    def getScoredPositions(self, positions: List[AlignmentPosition]):
        return [p.getScoredPosition(self.perfectMatchScore, self.distancePenaltyMultiplier, self.unmatchedPenalty) for p
                in positions]
