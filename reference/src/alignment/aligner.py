from __future__ import annotations

import itertools
from itertools import dropwhile, takewhile, chain
from typing import List, NamedTuple

from src.alignment.alignment_position import AlignedPair, NotAlignedQueryPosition, \
    NotAlignedReferencePosition, NotAlignedPosition, AlignmentPosition
from src.alignment.alignment_position_scorer import AlignmentPositionScorer
from src.alignment.alignment_results import AlignmentResultRow
from src.alignment.segment_with_resolved_conflicts import AlignmentSegmentConflictResolver
from src.alignment.segments_factory import AlignmentSegmentsFactory
from src.correlation.optical_map import OpticalMap, PositionWithSiteId
from src.correlation.peak import Peak


class _ReferenceIndexWithDistance(NamedTuple):
    index: int
    distance: int
    queryShift: int

    @staticmethod
    def withQueryAfterReference(index: int, distance: int):
        return _ReferenceIndexWithDistance(index, distance, distance)

    @staticmethod
    def withQueryBeforeReference(index: int, distance: int):
        return _ReferenceIndexWithDistance(index, distance, -distance)


class AlignerEngine:
    def __init__(self, maxDistance: int):
        self.maxDistance = maxDistance
        self.iteration = 1

    def align(self, reference: OpticalMap, query: OpticalMap, referenceStartPosition: int, referenceEndPosition: int,
              isReverse: bool) -> List[AlignmentPosition]:
        referencePositions = self.__getReferencePositionsWithinRange(reference, referenceStartPosition,
                                                                     referenceEndPosition)
        queryPositions = list(query.getPositionsWithSiteIds(isReverse))
        alignedPairs = self.__getAlignedPairs(referencePositions, queryPositions, referenceStartPosition)
        deduplicatedAlignedPairs = list(AlignedPair.deduplicate(alignedPairs))
        notAlignedPositions = self.__getNotAlignedPositions(queryPositions, referencePositions,
                                                            deduplicatedAlignedPairs, referenceStartPosition)
        return sorted(chain(deduplicatedAlignedPairs, notAlignedPositions))

    def __getReferencePositionsWithinRange(self, reference: OpticalMap, referenceStartPosition: int,
                                           referenceEndPosition: int):
        return list(takewhile(lambda x: x.position <= referenceEndPosition + self.maxDistance, dropwhile(
            lambda x: x.position < referenceStartPosition - self.maxDistance,
            reference.getPositionsWithSiteIds())))

    def __getAlignedPairs(self, referencePositions: List[PositionWithSiteId],
                          queryPositions: List[PositionWithSiteId], referenceStartPosition: int):
        for referencePosition in referencePositions:
            referencePositionAdjustedToQuery = referencePosition.position - referenceStartPosition
            queryPositionsWithinDistance = takewhile(
                lambda x: x.position <= referencePositionAdjustedToQuery + self.maxDistance, dropwhile(
                    lambda x: x.position < referencePositionAdjustedToQuery - self.maxDistance,
                    queryPositions))
            for queryPosition in queryPositionsWithinDistance:
                yield AlignedPair(referencePosition, queryPosition,
                                  queryPosition.position - referencePositionAdjustedToQuery, self.iteration)
        self.iteration += 1

    @staticmethod
    def __getNotAlignedPositions(queryPositions: List[PositionWithSiteId],
                                 referencePositions: List[PositionWithSiteId],
                                 alignedPairs: List[AlignedPair],
                                 referenceStartPosition: int):
        alignedReferenceSiteIds = [p.reference.siteId for p in alignedPairs]
        alignedQuerySiteIds = [p.query.siteId for p in alignedPairs]
        notAlignedReferencePositions: List[NotAlignedPosition] = \
            [NotAlignedReferencePosition(r) for r in referencePositions if
             r.siteId not in alignedReferenceSiteIds]
        notAlignedQueryPositions = [NotAlignedQueryPosition(q, referenceStartPosition) for q in queryPositions if
                                    q.siteId not in alignedQuerySiteIds]
        return notAlignedReferencePositions + notAlignedQueryPositions


class Aligner:
    def __init__(self, scorer: AlignmentPositionScorer,
                 segmentsFactory: AlignmentSegmentsFactory,
                 alignmentEngine: AlignerEngine,
                 segmentConflictResolver: AlignmentSegmentConflictResolver) -> None:
        self.scorer = scorer
        self.segmentsFactory = segmentsFactory
        self.alignmentEngine = alignmentEngine
        self.segmentConflictResolver = segmentConflictResolver

    def align(self, reference: OpticalMap, query: OpticalMap, peaks: Peak | List[Peak],
              isReverse: bool = False) -> AlignmentResultRow:
        if isinstance(peaks, Peak):
            peaks = [peaks]
        segments = list(itertools.chain.from_iterable(
            [self.getSegments(isReverse, p, query, reference) for p in peaks]))

        return AlignmentResultRow.create(self.segmentConflictResolver.resolveConflicts(segments),
                                         query.moleculeId,
                                         reference.moleculeId,
                                         query.length,
                                         reference.length,
                                         isReverse)

    def getSegments(self, isReverse: bool, peak: Peak, query: OpticalMap, reference: OpticalMap):
        referenceStartPosition = peak.position
        referenceEndPosition = peak.position + query.length
        alignmentPositions = self.alignmentEngine.align(reference, query, referenceStartPosition,
                                                        referenceEndPosition, isReverse)
        scoredPositions = self.scorer.getScoredPositions(alignmentPositions)
        return self.segmentsFactory.getSegments(scoredPositions, peak)
