import sys

sys.path.insert(0, "../")
from collections import defaultdict
from src.parsers.cmap_reader import CmapReader
from src.parsers.xmap_reader import XmapReader
import pandas as pd


def read_all_files(reference_file:str, alignment_file:str, query_file:str) -> tuple[dict, dict, dict]:
    """Function used to read all files used for alignment

    :param reference_file: name of reference file
    :type reference_file: str
    :param alignment_file: name of alignment file
    :type alignment_file: str
    :param query_file: name of query file
    :type query_file: str
    :return: dictionaries with parsed molecules and alignments
    :rtype: tuple[dict, dict, dict]
    """
    alignments = XmapReader().readAlignments(open(alignment_file))
    reference = CmapReader().readReferences(open(reference_file))
    query = CmapReader().readReferences(open(query_file))

    alignment_queryId = {}
    alignment_referenceId = {}
    alignment_queryId = defaultdict(lambda: [], alignment_queryId)
    alignment_referenceId = defaultdict(lambda: [], alignment_referenceId)
    reference_dict = {}
    query_dict = {}

    for alignment in alignments:
        alignment_referenceId[alignment.referenceId].append(alignment)
        alignment_queryId[alignment.queryId].append(alignment)
    for ref in reference:
        if ref:
            reference_dict[ref.moleculeId] = ref
    for quer in query:
        if quer:
            query_dict[quer.moleculeId] = quer
    return reference_dict, query_dict, alignment_referenceId


def read_alignments_file(alignment_file:str) -> dict:
    """Function used to read alignment file and returned parsed dictionary

    :param alignment_file: Name of aligned XMAP file
    :type alignment_file: str
    :return: Dictionary with reference ids as keys and alignments as values
    :rtype: dict
    """
    alignment_referenceId = {}
    alignment_referenceId = defaultdict(lambda: [], alignment_referenceId)
    alignments = XmapReader().readAlignments(open(alignment_file))
    for alignment in alignments:
        alignment_referenceId[alignment.referenceId].append(alignment)
    return  alignment_referenceId


def read_segments_file(seg_catch_file: str) -> pd.DataFrame:
    """Function used to read csv file with molecule segments

    :param seg_catch_file: Name of the COMA file with crated segments
    :type seg_catch_file: str
    :return: DataFrame with segments crated during COMA workflow
    :rtype: pd.DataFrame
    """
    df = pd.read_csv(seg_catch_file, sep=";")
    df = df.sort_values(by="queryId")
    small_df = df[~df["segmentNb"].isin([0,1])]
    return small_df
        