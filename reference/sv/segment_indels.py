import pandas as pd
import argparse
from read_files import read_alignments_file, read_all_files, read_segments_file
import re
from write_indel_files import write_indel_file
from src.args import Args
from src.extensions.extension import Extension
from src.extensions.messages import AlignmentResultRowMessage, MultipleAlignmentResultRowsMessage
from src.program import Program


def main():
    parser = argparse.ArgumentParser(description="Looks for indels in alignment file based on segments conflicts")
    parser.add_argument("-r", "--reference", dest="referenceFile", type=str, required=True)
    parser.add_argument("-q", "--query", dest="queryFile", type=str, required=True)
    parser.add_argument("-a", "--alignedOutput", dest="alignedFile", type=str, required=True,
                        help="Name of output file with COMA alignments")
    parser.add_argument("-s", "--segmentsOutput", dest="segmentsFile", type=str, required=True,
                        help="Name of output file with segments created during COMA workflow")
    parser.add_argument("-o", "--output", dest="outputFile", nargs="?",
                        type=str, default="segment_indels.txt")
    parser.add_argument("-ma", "--secondaryMargin", dest="secondaryMargin", type=int, default=16000,
                        help="The number of base pairs by which the peak from initial cross-correlation "
                        "seeding is extended in both directions to serve as an input for the "
                        "second cross-correlation run.")
    parser.add_argument("-pt", "--peakHeightThreshold", dest="peakHeightThreshold", type=float, default=27,
                        help="Minimum second cross-correlation peak height to qualify for aligned pairs search.")
    parser.add_argument("-sj", "--segmentJoinMultiplier", dest="segmentJoinMultiplier", type=float, default=1,
                        help="Multiplier applied to segment sequentiality scores.")
    parser.add_argument("-ss", "--sequentialityScore", dest="sequentialityScore", type=int, default=0,
                        help="Segment sequentiality scoring function version.")
    parser.add_argument("-D", "--diagnostics", dest="diagnosticsEnabled", action="store_true",
                        help="Draws cross-correlation and alignment plots. When used, 'alignmentFile' parameter "
                             "is required")

    args = parser.parse_args()  # type: ignore
    run(args)



class SegmentsCatcher(Extension):
    messageType = AlignmentResultRowMessage

    def __init__(self, filePath: str):
        self.filePath = filePath

    def handle(self, message: AlignmentResultRowMessage):
        peak = message.correlation.maxPeak
        if peak:
            with open(self.filePath, "a") as f:
                f.write(
                        f"{message.correlation.query.moleculeId};"
                        f"{message.correlation.reverseStrand};"
                        f"{len(message.alignment.segments)};"
                        f"{message.alignment.segments};"
                        f"{message.alignment.queryStartPosition};"
                        f"{message.alignment.queryEndPosition};"
                        f"{message.alignment.referenceStartPosition};"
                        f"{message.alignment.referenceEndPosition};"
                        f"{peak.score:.2f};"
                        f"{peak.position}\n")
                
class MultipleSegmentsCatcher(Extension):
    messageType = MultipleAlignmentResultRowsMessage

    def __init__(self, filePath: str):
        self.filePath = filePath

    def handle(self, message: AlignmentResultRowMessage):
        peak = message.correlation.maxPeak
        if peak:
            with open(self.filePath, "a") as f:
                f.write(
                        f"{message.correlation.query.moleculeId};"
                        f"{message.correlation.reverseStrand};"
                        f"{len(message.alignment.segments)};"
                        f"{message.alignment.segments};"
                        f"{message.alignment.queryStartPosition};"
                        f"{message.alignment.queryEndPosition};"
                        f"{message.alignment.referenceStartPosition};"
                        f"{message.alignment.referenceEndPosition};"
                        f"{peak.score:.2f};"
                        f"{peak.position}\n")

def find_conflict_place(multiple_segments: dict, alignmentFile: str) -> dict:
    """Function used to find places where segments where joined

    :param multiple_segments: Dictionary with molecules which had multiple segments
    :type multiple_segments: dict
    :param alignmentFile: COMA aligned file
    :type alignmentFile: str
    :return: Dictionary with identified places where segments where joined
    :rtype: dict
    """
    breakage_places = {}
    alignments = read_alignments_file(alignmentFile)
    for chromosme in alignments.values():
        for alignment in chromosme:
            if alignment.queryId in multiple_segments.keys():
                added = False
                if len(multiple_segments[alignment.queryId]) == 2:
                    if str(alignment.alignedPairs[0]) == multiple_segments[alignment.queryId][0][0]:
                        first = multiple_segments[alignment.queryId][0]
                    elif str(alignment.alignedPairs[0]) == multiple_segments[alignment.queryId][1][0]:
                        first = multiple_segments[alignment.queryId][1]
                    else:
                        added = True
                    if added == False:
                        for index, pair in enumerate(first):
                            if str(alignment.alignedPairs[index]) != pair and added is False:
                                breakage_places[int(alignment.queryId)] = [[index, pair]]
                                added = True
                    if added == False:
                        breakage_places[int(alignment.queryId)] = [[index, pair]]
                elif len(multiple_segments[alignment.queryId]) > 2:
                    if str(alignment.alignedPairs[0]) == multiple_segments[alignment.queryId][0][0]:
                        first = multiple_segments[alignment.queryId][0]
                        if added == False:
                            for index, pair in enumerate(first):
                                if str(alignment.alignedPairs[index]) != pair and added is False:
                                    breakage_places[int(alignment.queryId)] = [[index, pair]]
                                    added = True          
                        if added == False:
                            breakage_places[int(alignment.queryId)] = [[index, pair]]
                            if str(alignment.alignedPairs[index + 1]) == multiple_segments[alignment.queryId][1][0]:
                                added = False
                                for second_index, pair in enumerate(multiple_segments[alignment.queryId][1]):
                                    if str(alignment.alignedPairs[index + second_index + 1]) != pair and added is False:
                                        breakage_places[int(alignment.queryId)].append([index + second_index + 1, pair])
                                        added = True
                                if added == False:
                                    breakage_places[int(alignment.queryId)].append([index + second_index + 1, pair])
    return breakage_places

def find_segments_indels(small_df: pd.DataFrame) -> dict:
    """Function used to create dictionary with multiple
    segments for molecules which had them

    :param small_df: DataFrame with observed segments for molecules
    :type small_df: pd.DataFrame
    :return: Dictionary with multiple segments for molecules which had them
    :rtype: dict
    """
    segment_d = {}
    for _, row in small_df.iterrows():
        segemnts = row["segment"]
        segemnts = segemnts.split("],")
        segemnts = [i for i in segemnts if i not in [' score: 0.0, positions: [', ' score: 0.0, positions: []]']]
        if len(segemnts) > 1:
            for i in segemnts:
                if row["queryId"] not in segment_d.keys():
                    if len([pair for pair in re.findall(r'\(.*?\)', i) if "-" not in pair]) > 0:
                        segment_d[row["queryId"]] = [[pair for pair in re.findall(r'\(.*?\)', i) if "-" not in pair]]
                else:
                    if len([pair for pair in re.findall(r'\(.*?\)', i) if "-" not in pair]) > 0:
                        segment_d[row["queryId"]].extend([[pair for pair in re.findall(r'\(.*?\)', i) if "-" not in pair]])
    return segment_d

def look_for_indels_in_breakage(alignment_dict: dict, reference_dict: dict,
                                query_dict: dict, breakage_dict: dict) -> dict:
    """Function ued to identify indels in places where segments are joined

    :param alignment_dict: Dictionary with aligned molecules
    :type alignment_dict: dict
    :param reference_dict: Dictionary with reference molecules
    :type reference_dict: dict
    :param query_dict: Dictionary with query molecules
    :type query_dict: dict
    :param breakage_dict: Dictionary with information about the breakage points
    :type breakage_dict: dict
    :return: Dictionary with identified insertions and deletions
    :rtype: dict
    """
    indels = {"insertion" : [],
              "deletion" : []}
    for chromosome_alignments in alignment_dict.values():
        for alignment in chromosome_alignments:
            q_id = alignment.queryId
            r_id = alignment.referenceId
            if q_id in breakage_dict.keys():
                for i in breakage_dict[q_id]:
                    breakage_place = i
                    if len(alignment.alignedPairs) > breakage_place[0] + 1:
                        next_pair = alignment.alignedPairs[breakage_place[0] + 1]
                        breakage_pair = alignment.alignedPairs[breakage_place[0]]

                        r_label_s = reference_dict[r_id].positions[breakage_pair.reference.siteId - 1]
                        q_label_s = query_dict[q_id].positions[breakage_pair.query.siteId - 1]
                        r_label_e = reference_dict[r_id].positions[next_pair.reference.siteId - 1]
                        q_label_e = query_dict[q_id].positions[next_pair.query.siteId - 1]

                        diff = abs(r_label_s - r_label_e) - abs(q_label_s - q_label_e)
                        if abs(diff) > 100 and abs(diff) < 100000:
                            if diff < -100:
                                indels["insertion"].append(
                                        ["insertion", alignment.referenceId, r_label_s, r_label_e,
                                        q_id, q_label_s, q_label_e, diff])
                            else:
                                indels["deletion"].append(
                                        ["deletion", alignment.referenceId, r_label_s, r_label_e,
                                        q_id, q_label_s, q_label_e, diff])
    return indels



def run(args):
    segments_file = args.segmentsFile
    with open(segments_file, "w") as f:
        f.write("queryId;reverseStrand;segmentNb;segment;segmentQueryStart;segmentQueryEnd;segmentReferenceStart;segmentReferenceEnd;score;peakPosition\n")

    action_args = []
    if args.diagnosticsEnabled:
        action_args.append("-D")
    program_args = Args.parse([
        "-q", args.queryFile,
        "-r", args.referenceFile,
        "-o", args.alignedFile,
        "-ma", str(args.secondaryMargin),
        "-pt", str(args.peakHeightThreshold),
        "-sj", str(args.segmentJoinMultiplier),
        "-ss", str(args.sequentialityScore)
    ] + action_args)
    coma = Program(program_args, [SegmentsCatcher(segments_file)])
    coma.run()

    small_df = read_segments_file(segments_file)
    more_segemnts = find_segments_indels(small_df)

    breakage_points = find_conflict_place(more_segemnts, args.alignedFile)

    reference_dict, query_dict, alignment_referenceId = read_all_files(reference_file=args.referenceFile,
                                                                       alignment_file=args.alignedFile,
                                                                       query_file=args.queryFile)

    indels_dict = look_for_indels_in_breakage(alignment_referenceId, reference_dict,
                                              query_dict, breakage_points)

    write_indel_file(indels_dict, args.alignedFile, file_name=args.outputFile)

if __name__ == '__main__':
    main()
