from read_files import read_alignments_file, read_all_files
from write_indel_files import write_indel_file
import argparse
from src.parsers.xmap_reader import BionanoAlignment


def main():
    parser = argparse.ArgumentParser(description="Looks for indels in joined alignment file")
    parser.add_argument("-r", "--reference", dest="referenceFile", type=str, required=True)
    parser.add_argument("-q", "--query", dest="queryFile", type=str, required=True)
    parser.add_argument("-j", "--joined", dest="joinedFile", type=str, required=True,
                        help="File with joined alignments")
    parser.add_argument("-f", "--first", dest="firstFile", type=str, required=True,
                        help="File with FIRST pass alignments")
    parser.add_argument("-s", "--second", dest="secondFile", type=str, required=True,
                        help="File with SECOND pass alignments")
    parser.add_argument("-o", "--output", dest="outputFile", nargs="?", type=str, default="joined_indels.txt")

    args = parser.parse_args()  # type: ignore
    run(args)


def get_joined_ids(joined_file_name: str) -> set:
    """Function used to get ides of the joined molecules

    :param joined_file_name: Name of the joined aligned XMAP file
    :type joined_file_name: str
    :return: Set with molecules ids present in XMAP file
    :rtype: set
    """
    joined_query_ids = set()
    with open(joined_file_name, 'r') as f:
        lines = f.readlines()
    lines = [line.rstrip() for line in lines if not line.startswith("#")]
    for line in lines:
        line = line.split("\t")
        joined_query_ids.add(int(line[1]))
    return joined_query_ids

def add_alignment_to_dict(current_dict: dict, alignment: BionanoAlignment, alignment_type: str) -> dict:
    """Function used to update alignment dictionary

    :param current_dict: Alignment dictionary
    :type current_dict: dict
    :param alignment: Alignment which will be added to the dictionary
    :type alignment: BionanoAlignment
    :param alignment_type: Whether the alignments was obtained during FIST or SECOND PASS
    :type alignment_type: str
    :return: Updated dictionary
    :rtype: dict
    """
    current_dict[alignment.queryId][alignment_type] = alignment
    return current_dict


def get_separate_alignments(original_alignment_file: str, rests_alignment_file: str,
                            selected_ids: set) -> dict:
    """Function used to create dictionary with
    FIRST and SECOND PASS alignments for each molecule

    :param original_alignment_file: Name of FIRST PASS file
    :type original_alignment_file: str
    :param rests_alignment_file: Name of SECOND PASS file
    :type rests_alignment_file: str
    :param selected_ids: List of ids of joined molecules
    :type selected_ids: set
    :return: Dictionary with FIRS and SECOND PASS alignments
    for each molecule present in the joined file
    :rtype: dict
    """
    selected_ids_alignments = {i : {} for i in selected_ids}
    original_alignments = read_alignments_file(original_alignment_file)
    rests_alignments = read_alignments_file(rests_alignment_file)
    for chromosome, values in original_alignments.items():
        for value in values:
            if value.queryId in selected_ids:
                selected_ids_alignments = add_alignment_to_dict(selected_ids_alignments,
                                                                value, "original")
        for value in rests_alignments[chromosome]:
            if value.queryId in selected_ids:
                selected_ids_alignments = add_alignment_to_dict(selected_ids_alignments,
                                                                value, "rest")
    return selected_ids_alignments


def find_conflict_place(joint_alignments: str, multiple_alignments: dict) -> dict:
    """Function used to identify breakage point in joined alignments

    :param joint_alignments: Name of the XMAP file with joined alignments
    :type joint_alignments: str
    :param multiple_alignments: Dictionary with FIRST and SECOND pass alignments
    :type multiple_alignments: dict
    :return: Dictionary with identifies breakage places for all molecules
    :rtype: dict
    """

    breakage_places = {}
    joined = read_alignments_file(joint_alignments)
    for chromosme in joined.values():
        for alignment in chromosme:
            added = False
            if alignment.alignedPairs[0] == multiple_alignments[alignment.queryId]["original"].alignedPairs[0]:
                first = multiple_alignments[alignment.queryId]["original"]
            else:
                first = multiple_alignments[alignment.queryId]["rest"]
            for index, pair in enumerate(first.alignedPairs):
                if alignment.alignedPairs[index] != pair and added is False:
                    breakage_places[int(alignment.queryId)] = [index, pair]
                    added = True
                    break
            if added == False:
                breakage_places[int(alignment.queryId)] = [index, pair]
    return breakage_places


def look_for_indels_in_breakage(alignment_dict: dict, r_dict: dict,
                                q_dict: dict, breakage_dict: dict) -> dict:
    """Function ued to identify indels in places where molecules are joined

    :param alignment_dict: Dictionary with joined alignments
    :type alignment_dict: dict
    :param r_dict: Dictionary with reference molecules
    :type r_dict: dict
    :param q_dict: Dictionary with query molecules
    :type q_dict: dict
    :param breakage_dict: Dictionary with information about the breakage points
    :type breakage_dict: dict
    :return: Dictionary with identified insertions and deletions
    :rtype: dict
    """
    indels = {"insertion" : [],
              "deletion" : []}
    for chromosome_alignments in alignment_dict.values():
        for alignment in chromosome_alignments:
            q_id = alignment.queryId
            r_id = alignment.referenceId

            breakage_place = breakage_dict[q_id]
            next_pair = alignment.alignedPairs[breakage_place[0] + 1]

            r_label_s = r_dict[r_id].positions[breakage_place[1].reference.siteId - 1]
            q_label_s = q_dict[q_id].positions[breakage_place[1].query.siteId - 1]
            r_label_e = r_dict[r_id].positions[next_pair.reference.siteId - 1]
            q_label_e = q_dict[q_id].positions[next_pair.query.siteId - 1]

            diff = abs(r_label_s - r_label_e) - abs(q_label_s - q_label_e)
            if abs(diff) > 2000 and abs(diff) < 100000:
                if diff < -2000:
                    indels["insertion"].append(
                            ["insertion", alignment.referenceId, r_label_s, r_label_e,
                            q_id, q_label_s, q_label_e, diff])
                else:
                    indels["deletion"].append(
                            ["deletion", alignment.referenceId, r_label_s, r_label_e,
                            q_id, q_label_s, q_label_e, diff])
    return indels


def run(args):
    joined_queries_id = get_joined_ids(args.joinedFile)
    queryID_alignments_dict = get_separate_alignments(args.firstFile, args.secondFile,
                                                      joined_queries_id)
    breakage_points = find_conflict_place(args.joinedFile, queryID_alignments_dict)

    reference_dict, query_dict, alignment_referenceId = read_all_files(reference_file=args.referenceFile,
                                                                       alignment_file=args.joinedFile,
                                                                       query_file=args.queryFile)
    indels_dict = look_for_indels_in_breakage(alignment_referenceId, reference_dict,
                                              query_dict, breakage_points)

    write_indel_file(indels_dict, args.joinedFile, file_name=args.outputFile)

if __name__ == '__main__':
    main()
