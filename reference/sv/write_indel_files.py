import operator

def cluster_indels(list_indels:list, blur:int=30000) -> list:
    """Identify and count same indels found in different query molecules

    :param list_indels: list onf indels of one type
    :type list_indels: list
    :param blur: PositionBlur which should be used during clustering, defaults to 30000
    :type blur: int, optional
    :return: Clustered lines
    :rtype: list
    """
    new_list = []
    if len(list_indels) > 0:
        first_line = list_indels[0]
        new_list = [first_line + [1]]
        for line in list_indels[1:]:
            if abs(line[3] - new_list[-1][3]) <= blur:
                if line[0:2] == new_list[-1][0:2]:
                    prev_line = new_list[-1]
                    if len(prev_line) == 8:
                        prev_line.append(1)
                    else:
                        prev_line[8] = prev_line[8] + 1
                        prev_line[2] = min(prev_line[2], line[2])
                        prev_line[3] = max(prev_line[3], line[3])
                        prev_line[7] = (prev_line[7]+ line[7])/2
                    prev_line[4] = str(prev_line[4]) + "," + str(line[4])
                    new_list[-1] = prev_line
                else:
                    new_list.append(line + [1])
            elif abs(line[2] - new_list[-1][2]) <= blur and abs(line[3] - new_list[-1][3]) <= blur:
                if line[0:2] == new_list[-1][0:2]:
                    prev_line = new_list[-1]
                    if len(prev_line) == 8:
                        prev_line.append(1)
                    else:
                        prev_line[8] = prev_line[8] + 1
                        prev_line[2] = min(prev_line[2], line[2])
                        prev_line[3] = max(prev_line[3], line[3])
                        prev_line[7] = (prev_line[7]+ line[7])/2
                    prev_line[4] = str(prev_line[4]) + "," + str(line[4])
                    new_list[-1] = prev_line
                else:
                    new_list.append(line + [1])
            else:
                new_list.append(line + [1])
    return new_list

def write_indel_file(indels_dict:dict, alignment_file_name:str, file_name:str="indels.txt"):
    """Function used to write indels files

    :param indels_dict: Dictionary with identified indels
    :type indels_dict: dict
    :param alignment_file_name: Name of alignments XMAP file
    :type alignment_file_name: str
    :param file_name: Name of output file, defaults to "indels.txt"
    :type file_name: str, optional
    """
    lines_deletions = list(indels_dict.values())[1]
    lines_insertions = list(indels_dict.values())[0]
    lines_sorted_del = sorted(lines_deletions, key=operator.itemgetter(1, 3))
    lines_sorted_ins = sorted(lines_insertions, key=operator.itemgetter(1, 3))

    lines_deletions_sorted = cluster_indels(lines_sorted_del)
    lines_insertions_sorted = cluster_indels(lines_sorted_ins)
    lines_sorted = sorted(lines_deletions_sorted + lines_insertions_sorted,
                          key=operator.itemgetter(1, 3))

    with open(file_name, "w") as f:
        f.write("#" + alignment_file_name + "\n")
        f.write("#Type \t Chromosome \t RefStart \t RefStop \t QueryId \t QueryStart \t QueryStop \t Length \t Count \n")
        for line in lines_sorted:
            line = [str(i) for i in line]
            line = "\t".join(line)
            f.write(line + "\n")
