"""Regenerates MANIFEST.json from the table below and validates it (python3-vt tools_manifest.py)."""
import json
import os

HERE = os.path.dirname(os.path.abspath(__file__))

CHECKS = {
    # id: (design_ref, text, note, technique)
    "C13": ("5/C13", "Bounded symbolic model checking of the real getSegments: every feasible path for lists of up to 6 (quick) / 8 "
            "(thorough) scored positions with unbounded real scores and thresholds; each clause of the statement is one validity "
            "query per path.",
            "Trusted: CPython data model, symx proxies (cross-checked by per-path concrete witness replay), z3. Exact reals, not IEEE floats.",
            "symbolic execution of the real Python code with z3 (own engine symx), exhaustive path enumeration within bounds"),
}

NOT_APPLICABLE = {
}


def build():
    checks = []
    for pid, (ref, text, note, tech) in sorted(CHECKS.items()):
        checks.append({
            "property_id": pid,
            "quick_cmd": f"./check {pid} --tier quick",
            "thorough_cmd": f"./check {pid} --tier thorough",
            "evidence_file": f"/verif/evidence/{pid}.json",
            "replay_cmd_template": f"./check {pid} --replay {{path}}",
            "engine": "symx",
            "level_claimed": {"category": "model_checking", "text": text, "design_ref": ref},
            "level_note": note,
            "technique": tech,
        })
    return {
        "version": 1,
        "setup_cmd": "sh /verif/setup.sh",
        "hooks": {"guard": "COMA_VERIF", "enable": "no source hooks are needed: checks import /repo's working tree and stub collaborators "
                  "from the harness process (constructor injection / monkey-patching); COMA_VERIF=1 is exported but nothing in /repo reads it",
                  "baseline_off_cmd": "cd /repo && /venv/bin/python -m pytest -ra -q -p no:cacheprovider --timeout=900 --continue-on-collection-errors",
                  "source_commits": [], "add_only": True},
        "engines": [{"name": "symx", "path": "/verif/symx", "serves_properties": sorted(CHECKS),
                     "kind_free_text": "z3-proxy symbolic executor running the unmodified Python functions of /repo; DFS over branch decisions; "
                                       "validity queries per property clause; concrete replay of every counterexample"}],
        "checks": checks,
        "notes": "See DESIGN.md. Exit codes: 0 held / known findings only, 1 VIOLATION, 3 harness error (never a verdict).",
        "not_applicable": [{"property_id": k, "reason": v} for k, v in sorted(NOT_APPLICABLE.items())],
    }


if __name__ == "__main__":
    m = build()
    json.dump(m, open(os.path.join(HERE, "MANIFEST.json"), "w"), indent=1)
    try:
        import jsonschema
        jsonschema.validate(m, json.load(open("/root/.vp/MANIFEST.schema.json")))
        print("MANIFEST.json valid;", len(m["checks"]), "checks,", len(m["not_applicable"]), "not applicable")
    except ImportError:
        print("written (jsonschema not available for validation)")
