"""Regenerates MANIFEST.json from the table below and validates it (python3-vt tools_manifest.py)."""
import json
import os

HERE = os.path.dirname(os.path.abspath(__file__))

NOTE = ("Trusted: CPython data model, the symx proxies/explorer (cross-checked on sampled paths by concrete witness replay of the real code on "
        "solver-chosen inputs), z3. Numbers are exact reals/integers, not IEEE floats. Claim is bounded: nothing is said above the stated sizes.")
TECH = "symbolic execution of the real Python code with z3 (own engine symx): exhaustive path enumeration within bounds, one validity query per clause per path, concrete replay of counterexamples"

CHECKS = {
    # id: (design_ref, text)
    "C01": ("5/C01", "Whole real Aligner.align run symbolically on tiny maps (<= 3 x 3 labels, <= 3 seeds, both strands, symbolic coordinates, seeds and scoring parameters: "
            "~9e4 paths), stages chain->resolve->row from generated valid pre-states (2 segments of up to 5 positions over up to 6 x 6 labels, reachability-filtered), the public join "
            "of two generated records, and every record of every file of the four multi-pass modes: listed pairs are a one-to-one collinear matching of existing labels, >= 1 pair."),
    "C03": ("5/C03", "Real AlignmentResultRow.cigarString on every valid matching of <= 4 (quick) / 6 (thorough) pairs with label gaps <= 3 / 4, both orientations, one or two "
            "segments, first pair's label numbers unbounded: the string is replayed from the first pair and must give exactly the listed pairs; plus the same replay on every "
            "record (first-pass, second-pass, joined) the multi-pass harness writes, with the record's own Orientation."),
    "C04": ("5/C04", "Same explorations as C01 with the aligner built by the real WorkflowCoordinatorFactory from symbolic command-line values; one validity query per path shows "
            "Confidence equals the score recomputed from raw maps, seed and parameters, offsets <= maxPairDistance, segment spans fully accounted, no label paired twice in a record; "
            "Confidence of every written multi-pass record (incl. joined) = sum of the reported positions' scores; concrete Args.parse -> factory wiring confirmation."),
    "C12": ("5/C12", "Real AlignerEngine.align on <= 3 x 3 (quick) / 5 x 4 (thorough) labels, both strands, coincident labels, label-number offsets; all "
            "coordinates, seed, window end, maxDistance symbolic; clauses (a)-(e) of the statement as validity queries per path; for small maps also after a previous "
            "call of the same engine object on another reference with the same id (no state may leak between calls)."),
    "C13": ("5/C13", "Real getSegments on lists of <= 6 (quick) / 8 (thorough) scored positions with unbounded real scores and thresholds; each clause of the "
            "statement is one validity query per path, incl. the converse for the empty result."),
    "C14": ("5/C14", "Real SegmentChainer.chain with an arbitrary admissible scorer (<= 4/5 segments; maximality against every order-respecting subset in one "
            "query), real SequentialityScorer.getScore in non-linear real arithmetic (both strands/variants), and real chainer+scorer on 2-3 segments."),
    "C15": ("5/C15", "Same explorations as C01 (Level 1 + generated pre-states + public join); resolveConflicts' input and every pairwise resolution are observed: results are "
            "contiguous sub-runs of inputs, positions not re-scored, scores recomputed, no two result segments share a label or cross, pairs outside the overlap are kept."),
    "C02": ("5/C02", "Real trim / getPositionsWithSiteIds / AlignmentResultRow.create / getUnalignedFragments / resolve and the real XMAP writer through pandas; "
            "every numeric cell of the text is a marker mapping back to its symbolic term; an independent parser feeds validity queries for each field of each record "
            "(first-pass, second-pass on a real fragment, joined), untrimmed symbolic query."),
    "C05": ("5/C05", "Real filterOutSubsequentAlignmentsForSingleQuery on <= 4/5 symbolic rows; real per-query orchestration (__align, PeaksSelector) with scipy "
            "entry points and aligner stubbed by arbitrary values: candidates come from the peaksCount best seeds, best candidate returned; real mode logic in 4 modes."),
    "C07": ("5/C07", "No path of the real orchestration (stubbed seeding), of the whole aligner on degenerate maps, of the mode logic in four modes, or of the XMAP "
            "writer raises; files written are read back by the real reader on path witnesses; concrete CLI replays of the degenerate input classes confirm through Program.run()."),
    "C08": ("5/C08", "Real _MultiPassWorkflowCoordinator.execute run in the four multi-pass modes on the same symbolic first-/second-pass rows (real getUnalignedFragments, "
            "filterOut, resolve, check_overlap): file equalities between modes, joined-record justification and faithfulness, as structural facts plus validity queries."),
    "C16": ("5/C16", "Real vectorisePositions (<= 3/4 labels, <= 8 bins, symbolic start/end), blur (<= 6/8 symbolic bits, radius 0..4), toRelativeGenomicPositions (unbounded "
            "symbolic bin/start), the refinement window round trip OpticalMap.getSequence x toRelativeGenomicPositions as InitialAlignment.refine composes them (symbolic, "
            "possibly negative window start), PeaksSelector.selectPeaks and CorrelationResult.createPeaks (symbolic scores/heights in object arrays)."),
    "C17": ("5/C17", "TRIM HALF ONLY is solver-decided: real OpticalMap.trim on maps of <= 5/8 symbolic labels (first label to 0, count and distances kept, length, idempotence). The "
            "CMAP reader half (pandas) cannot hold symbolic values: it is only exercised on one solver-chosen witness per path (shuffled rows, extra column, id filters) as a "
            "sampled public-API confirmation and is otherwise outside the claim."),
    "C20": ("5/C20", "Real cluster_indels on <= 3/4 sorted calls (symbolic chromosome, interval, Length, blur), run twice on the same rows, real write_indel_file with the text parsed back, real "
            "look_for_indels_in_breakage of both indel finders with symbolic label coordinates."),
    "C09": ("5/C09", "REDUCTION, not schedules: (1) AlignerEngine.iteration (the only state a call leaves in a worker) is an arbitrary symbolic integer: no branch and no "
            "output term of the whole real Aligner.align mentions it, the aligner's object graph is otherwise unchanged, a second call returns the same record; (2) the real "
            "mode logic gives identical files for every order of queries/references. OS schedules, pathos/dill and --cpus are not explored."),
    "C10": ("5/C10", "REDUCTION: worker-state non-interference as C09; records of a query equal those of a run restricted to it and files are invariant under query / reference "
            "permutations (real mode logic, 4 modes); per-query selection returns the same candidate for either reference order when scores are distinct. -qId/-rId filters "
            "and CMAP row order (pandas) are not decided."),
    "C11": ("5/C11", "Real getSequence: reverse-strand bit vector of Q equals the forward vector of mirror(Q) on the resolution lattice (so seeds coincide); whole real Aligner.align "
            "on (Q,-) and (mirror(Q),+) with the same arbitrary seeds gives mirrored records (labels k <-> N+1-k, equal Confidence, mirrored header, same HitEnum)."),
    "C19": ("5/C19", "Real AlignmentComparer.compare with an injected row comparer returning symbolic measures, AlignmentComparison.create, and AlignmentRowComparer.compare "
            "on pair lists of <= 2 pairs: key partition, set differences, swap symmetry, measures in [0,1], reflexivity. Ids and label numbers are hashed by the code, so the "
            "solver enumerates them by realisation forks (small declared domains) rather than abstracting them."),
}

NOT_APPLICABLE = {
    "C06": "FFT cross-correlation and scipy.signal.find_peaks (floating point, compiled code, thousands of bins) cannot be executed symbolically; assuming the seed contract would assume the conclusion (DESIGN section 6)",
    "C18": "writer/reader are thin layers over pandas to_csv/read_csv, str.format and int(): every symbolic value is realised at those C boundaries and the string<->int theories did not terminate in probes (DESIGN section 6)",
    "C02": "harness not built yet",
    "C05": "harness not built yet",
    "C07": "harness not built yet",
    "C08": "harness not built yet",
    "C09": "harness not built yet",
    "C10": "harness not built yet",
    "C11": "harness not built yet",
    "C16": "harness not built yet",
    "C17": "harness not built yet",
    "C19": "harness not built yet",
    "C20": "harness not built yet",
}


def build():
    checks = []
    for pid, (ref, text) in sorted(CHECKS.items()):
        note, tech = NOTE, TECH
        checks.append({
            "property_id": pid,
            "quick_cmd": f"./check {pid} --tier quick",
            "thorough_cmd": f"./check {pid} --tier thorough",
            "evidence_file": f"/verif/evidence/{pid}.json",
            "replay_cmd_template": f"./check {pid} --replay {{path}}",
            "engine": "symx",
            "level_claimed": {"category": ("other" if pid in ("C09", "C10") else "model_checking"), "text": text, "design_ref": ref},
            "level_note": note,
            "technique": tech,
        })
    return {
        "version": 1,
        "setup_cmd": "sh /verif/setup.sh",
        "hooks": {"guard": "COMA_VERIF", "enable": "no source hooks are needed: checks import /repo's working tree and stub collaborators "
                  "from the harness process (constructor injection / monkey-patching); COMA_VERIF=1 is exported but nothing in /repo reads it",
                  "baseline_off_cmd": "cd /repo && /venv/bin/python -m pytest -ra -q -p no:cacheprovider --timeout=900 --continue-on-collection-errors",
                  "source_commits": [], "add_only": True},
        "engines": [{"name": "symx", "path": "/verif/symx", "serves_properties": sorted(CHECKS),
                     "kind_free_text": "z3-proxy symbolic executor running the unmodified Python functions of /repo; DFS over branch decisions; "
                                       "validity queries per property clause; concrete replay of every counterexample"}],
        "checks": checks,
        "notes": "See DESIGN.md. Exit codes: 0 held / known findings only, 1 VIOLATION, 3 harness error (never a verdict).",
        "not_applicable": [{"property_id": k, "reason": v} for k, v in sorted(NOT_APPLICABLE.items()) if k not in CHECKS],
    }


if __name__ == "__main__":
    m = build()
    json.dump(m, open(os.path.join(HERE, "MANIFEST.json"), "w"), indent=1)
    try:
        import jsonschema
        jsonschema.validate(m, json.load(open("/root/.vp/MANIFEST.schema.json")))
        print("MANIFEST.json valid;", len(m["checks"]), "checks,", len(m["not_applicable"]), "not applicable")
    except ImportError:
        print("written (jsonschema not available for validation)")
